package main

// Suites `lex` (C04) and `eexec` (C05) over the interpreter's scanner.

import (
	"bytes"
	"fmt"
	"math/big"
	"strconv"
	"strings"

	"seehuhn.de/go/postscript"
)

type lexTok struct {
	kind string // int real str name op
	i    int64
	f    float64
	s    []byte
	text string // spelling
}

var sepPool = []string{" ", "\t", "\n", "\r", "\r\n", "\f", "\x00", "  ", " % comment\n", "%c\r", "% x\r\n", "\n% a % b\n ", "% ends at a form feed\f", "\n%%Key: v\f", "\f%%+\f"}

func regularTokKind(k string) bool { return k == "int" || k == "real" || k == "name" || k == "op" }

func spellInt(r *rng, v int64) string {
	switch r.intn(6) {
	case 0:
		if v >= 0 {
			return "+" + fmt.Sprint(v)
		}
	case 1:
		if v >= 0 {
			return strings.Repeat("0", r.rangeInt(1, 3)) + fmt.Sprint(v)
		}
	case 2, 3:
		if v >= 0 {
			base := r.rangeInt(2, 36)
			s := big.NewInt(v).Text(base)
			if r.chance(1, 2) {
				s = strings.ToUpper(s)
			}
			return fmt.Sprintf("%d#%s", base, s)
		}
	}
	return fmt.Sprint(v)
}

// spellReal returns a spelling and the exactly rounded value it denotes.
func spellReal(r *rng) (string, float64) {
	ip := fmt.Sprint(r.intn(100000))
	fp := fmt.Sprint(r.intn(100000))
	if r.chance(1, 4) {
		fp = strings.Repeat("0", r.intn(3)) + fp
	}
	sign := pick(r, []string{"", "", "-", "+"})
	var mant string
	switch r.intn(4) {
	case 0:
		mant = ip + "." + fp
	case 1:
		mant = ip + "."
		fp = ""
	case 2:
		mant = "." + fp
		ip = ""
	default:
		mant = ip + "." + fp
	}
	exp := 0
	es := ""
	if r.chance(1, 2) {
		exp = r.rangeInt(-30, 30)
		es = pick(r, []string{"e", "E"}) + pick(r, []string{"", "+"})
		if exp < 0 {
			es = es[:1]
		}
		es += fmt.Sprint(exp)
	}
	// exact value: digits * 10^(exp - len(fp))
	digits := ip + fp
	if digits == "" {
		digits = "0"
	}
	m, _ := new(big.Int).SetString(digits, 10)
	val := new(big.Rat).SetInt(m)
	e10 := exp - len(fp)
	p := new(big.Int).Exp(big.NewInt(10), big.NewInt(int64(abs(e10))), nil)
	if e10 >= 0 {
		val.Mul(val, new(big.Rat).SetInt(p))
	} else {
		val.Quo(val, new(big.Rat).SetInt(p))
	}
	f, _ := val.Float64()
	if sign == "-" {
		f = -f
	}
	return sign + mant + es, f
}

func abs(x int) int {
	if x < 0 {
		return -x
	}
	return x
}

func spellString(r *rng, s []byte) string {
	switch r.intn(4) {
	case 0: // hex
		var sb strings.Builder
		sb.WriteByte('<')
		digits := pick(r, []string{"0123456789abcdef", "0123456789ABCDEF"})
		for i, b := range s {
			sb.WriteByte(digits[b>>4])
			if r.chance(1, 6) {
				sb.WriteString(pick(r, []string{" ", "\n", "\t"}))
			}
			if i == len(s)-1 && b&15 == 0 && r.chance(1, 2) {
				break // odd number of digits: the missing one is 0
			}
			sb.WriteByte(digits[b&15])
		}
		sb.WriteByte('>')
		return sb.String()
	case 1: // ASCII85
		var sb strings.Builder
		sb.WriteString("<~")
		for i := 0; i < len(s); i += 4 {
			chunk := s[i:min(i+4, len(s))]
			var v uint32
			for k := 0; k < 4; k++ {
				v <<= 8
				if k < len(chunk) {
					v |= uint32(chunk[k])
				}
			}
			if len(chunk) == 4 && v == 0 {
				sb.WriteByte('z')
			} else {
				var d [5]byte
				for k := 4; k >= 0; k-- {
					d[k] = byte(v%85) + '!'
					v /= 85
				}
				sb.Write(d[:len(chunk)+1])
			}
			if r.chance(1, 5) {
				sb.WriteString(pick(r, []string{" ", "\n"}))
			}
		}
		sb.WriteString("~>")
		return sb.String()
	default: // literal string with per-byte escape choice
		var sb strings.Builder
		sb.WriteByte('(')
		level := 0
		for i := 0; i < len(s); i++ {
			b := s[i]
			nextIsOctal := i+1 < len(s) && s[i+1] >= '0' && s[i+1] <= '7'
			choice := r.intn(6)
			switch {
			case b == '\\':
				sb.WriteString("\\\\")
			case b == '(':
				// raw only if a matching ')' follows later with nothing unbalanced in between: keep it simple
				sb.WriteString("\\(")
			case b == ')':
				sb.WriteString("\\)")
			case b == '\r':
				sb.WriteString(pick(r, []string{"\\r", "\\015"}))
			case b == '\n' && choice < 3:
				sp := pick(r, []string{"\n", "\r", "\r\n", "\\n"}) // raw line ends read as LF
				if sp == "\n" && strings.HasSuffix(sb.String(), "\r") {
					sp = "\\n" // a raw LF after a raw CR would spell one CRLF line end, not a second one
				}
				sb.WriteString(sp)
			case choice == 0:
				fmt.Fprintf(&sb, "\\%03o", b)
			case choice == 1 && !nextIsOctal:
				fmt.Fprintf(&sb, "\\%o", b)
			case choice == 2 && b == '\t':
				sb.WriteString("\\t")
			case choice == 2 && b == '\b':
				sb.WriteString("\\b")
			case choice == 2 && b == '\f':
				sb.WriteString("\\f")
			default:
				if b == '\n' && strings.HasSuffix(sb.String(), "\r") {
					sb.WriteString("\\n")
				} else {
					sb.WriteByte(b)
				}
			}
			if r.chance(1, 12) {
				sb.WriteString(pick(r, []string{"\\\n", "\\\r", "\\\r\n"})) // line continuation
			}
		}
		_ = level
		sb.WriteByte(')')
		return sb.String()
	}
}

// balancedString: raw nested parentheses
func balancedSpell(r *rng) (string, []byte) {
	inner := pick(r, []string{"a(b)c", "()", "(())", "x(y(z))", "(\\))"})
	want := strings.ReplaceAll(inner, "\\)", ")")
	return "(" + inner + ")", []byte(want)
}

const nameAlphabet = "abcdefghijklmnopqrstuvwxyzABCDEFGHIJKLMNOPQRSTUVWXYZ0123456789._-+*!$&'\",:;=?@^`|~#"

func randName(r *rng) string {
	n := r.rangeInt(1, 8)
	b := make([]byte, n)
	for i := range b {
		b[i] = nameAlphabet[r.intn(len(nameAlphabet))]
		if r.chance(1, 30) {
			b[i] = byte(r.rangeInt(128, 255))
		}
	}
	// must not read as a number: put a letter first and avoid radix/exponent look-alikes
	b[0] = "abcdfghijklmnopqrstuvwxyzGHIJKLMNOPQRSTUVWXYZ"[r.intn(45)]
	return string(b)
}

func randLexTok(r *rng) lexTok {
	switch r.intn(9) {
	case 0, 1:
		v := pick(r, []int64{0, 1, 7, 42, 255, 65535, 2147483647, 9223372036854775807, 123456789})
		if r.chance(1, 3) {
			v = -v
		}
		return lexTok{kind: "int", i: v, text: spellInt(r, v)}
	case 2:
		t, f := spellReal(r)
		return lexTok{kind: "real", f: f, text: t}
	case 3, 4:
		if r.chance(1, 8) {
			t, want := balancedSpell(r)
			return lexTok{kind: "str", s: want, text: t}
		}
		s := make([]byte, r.intn(9))
		special := r.chance(1, 3) // strings rich in line ends, escapes and digits (escape / line-end state machines)
		for i := range s {
			s[i] = byte(r.intn(256))
			if special {
				s[i] = pick(r, []byte{'\n', '\n', '\r', '\\', 'A', '7', '8', '0', '\t', ' '})
			}
		}
		if r.chance(1, 6) {
			// boundary groups of the ASCII85 and hex encodings: all ones, all zeros, the largest group
			s = append(pick(r, [][]byte{{255, 255, 255, 255}, {0, 0, 0, 0}, {255, 255, 255, 255, 255}, {255, 255, 255, 254}, {0, 255, 255, 255, 255, 0}}), s[:r.intn(len(s)+1)]...)
		}
		return lexTok{kind: "str", s: s, text: spellString(r, s)}
	case 5, 6:
		n := randName(r)
		if r.chance(1, 10) {
			n = ""
		}
		return lexTok{kind: "name", s: []byte(n), text: "/" + n}
	case 7:
		n := pick(r, []string{"[", "]", "<<", ">>"})
		return lexTok{kind: "op", s: []byte(n), text: n}
	default:
		n := randName(r)
		return lexTok{kind: "op", s: []byte(n), text: n}
	}
}

func selfDelimiting(t lexTok) bool {
	if t.kind == "str" {
		return true
	}
	return t.kind == "op" && (t.text == "[" || t.text == "]" || t.text == "<<" || t.text == ">>")
}

// checkProcContents compares the elements of the pushed procedure with the expected tokens.
func checkProcContents(o *suiteOut, line string, intp *postscript.Interpreter, want []lexTok) {
	if len(intp.Stack) != 1 {
		o.fail("C04", "the token sequence is read back as exactly that object sequence", line, "one procedure", fmt.Sprint(len(intp.Stack), " objects"))
		return
	}
	proc, ok := intp.Stack[0].(postscript.Procedure)
	if !ok || len(proc) != len(want) {
		o.fail("C04", "the token sequence is read back as exactly that object sequence", line, fmt.Sprint(len(want), " objects"), fmt.Sprintf("%T %v", intp.Stack[0], intp.Stack[0]))
		return
	}
	for i, t := range want {
		good := false
		switch v := proc[i].(type) {
		case postscript.Integer:
			good = t.kind == "int" && int64(v) == t.i
		case postscript.Real:
			good = t.kind == "real" && float64(v) == t.f
		case postscript.String:
			good = t.kind == "str" && bytes.Equal(v, t.s)
		case postscript.Name:
			good = t.kind == "name" && string(v) == string(t.s)
		case postscript.Operator:
			good = t.kind == "op" && string(v) == string(t.s)
		}
		if !good {
			o.fail("C04", "each lexical form is read as the object it denotes", line, fmt.Sprintf("token %d %q = %s %v %v %q", i, t.text, t.kind, t.i, t.f, t.s), fmt.Sprintf("%T %v", proc[i], proc[i]))
			return
		}
	}
}

func suiteLex(o *suiteOut, r *rng, tier string, n int) {
	p := newProgSuite(o, "C04")
	for _, l := range corpusLines("lex") {
		replayRun(o, l)
		o.count("corpus cases")
	}
	nr := 5000
	if tier == "thorough" {
		nr = 200000
	}
	if n > 0 {
		nr = n
	}
	for i := 0; i < nr; i++ {
		k := r.rangeInt(1, 8)
		var toks []lexTok
		var sb strings.Builder
		sb.WriteString("{")
		prev := lexTok{kind: "op", text: "{"}
		for j := 0; j < k; j++ {
			t := randLexTok(r)
			sep := pick(r, sepPool)
			// nothing between two tokens when one of them delimits itself; a literal name
			// (leading slash) also ends the preceding token
			if (selfDelimiting(prev) || selfDelimiting(t) || t.kind == "name") && r.chance(1, 2) {
				sep = ""
			}
			if j == 0 && r.chance(1, 2) {
				sep = ""
			}
			if t.text == ">>" && prev.text == ">" {
				sep = " "
			}
			sb.WriteString(sep)
			sb.WriteString(t.text)
			toks = append(toks, t)
			prev = t
		}
		if !selfDelimiting(prev) || r.chance(1, 2) {
			sb.WriteString(pick(r, sepPool))
		}
		sb.WriteString("}")
		prog := sb.String()
		line := runCaseLine(0, false, prog)
		class, intp := p.run(0, false, prog)
		if intp == nil {
			continue
		}
		o.count("token sequences")
		if class != "ok" {
			o.fail("C04", "a legal token sequence is accepted", line, "ok", class)
			continue
		}
		checkProcContents(o, line, intp, toks)
	}
	// DSC comments collected in order, with %%+ continuations
	for i := 0; i < nr/10; i++ {
		var sb strings.Builder
		var want []postscript.Comment
		var cuts []int // positions between complete comment groups
		sb.WriteString("%!PS-Adobe-3.0\n")
		for j := r.rangeInt(1, 5); j > 0; j-- {
			cuts = append(cuts, sb.Len())
			key := pick(r, []string{"Title", "Creator", "CreationDate", "BoundingBox", "X"})
			val := pick(r, []string{"hello world", "1 2 3 4", "", "(a) b", "x  y"})
			// a line end; `wide` ones contain a further (blank) line, after which a %%+ line is no continuation
			plainEOL := []string{"\n", "\r", "\r\n"}
			wideEOL := []string{"\r \n", "\r\t \n", "\n \n", "\r\r", "\n\r", "\r \r", "\n", "\r", "\r\n"}
			full := val
			if r.chance(1, 4) {
				more := pick(r, []string{"and more", "z"})
				sb.WriteString("%%" + key + ": " + val + pick(r, plainEOL))
				sb.WriteString("%%+ " + more + pick(r, wideEOL))
				full += " " + more
			} else {
				sb.WriteString("%%" + key + ": " + val + pick(r, wideEOL))
			}
			want = append(want, postscript.Comment{Key: key, Value: full})
			if r.chance(1, 2) {
				sb.WriteString(pick(r, []string{"1 2 add pop\n", "% plain comment\n", "/a 1 def\n", "/a\r \n", "/b 2 def\r\t\n", "1 pop \r  \n", "(s) pop\r\n", "/c\r \r"}))
			}
		}
		prog := sb.String()
		line := runCaseLine(0, false, prog)
		_, intp := p.run(0, false, prog)
		if intp == nil {
			continue
		}
		o.count("DSC programs")
		if fmt.Sprint(intp.DSC) != fmt.Sprint(want) {
			o.fail("C04", "%%Key: value lines (with %%+ continuations) are collected in order", line, fmt.Sprint(want), fmt.Sprint(intp.DSC))
		}
		// the same text handed over in several Execute calls: Interpreter.DSC holds all comments read so far
		var parts []string
		last := 0
		for _, c := range cuts {
			if c > last && r.chance(1, 2) {
				parts = append(parts, prog[last:c])
				last = c
			}
		}
		parts = append(parts, prog[last:])
		if r.chance(1, 3) {
			parts = append(parts, pick(r, []string{"1 2 add\n", "% nothing\n", ""}))
		}
		if len(parts) > 1 {
			mi := postscript.NewInterpreter()
			ok := true
			for _, part := range parts {
				if mi.Execute(strings.NewReader(part)) != nil {
					ok = false
					break
				}
			}
			rline := runsLine(o, 0, false, parts)
			o.count("DSC programs split over several calls")
			if ok && fmt.Sprint(mi.DSC) != fmt.Sprint(want) {
				var hs []string
				for _, part := range parts {
					hs = append(hs, hx([]byte(part)))
				}
				_ = rline
				o.fail("C04", "the comments of all calls so far are kept in order (several Execute calls)", "runs 0 0 "+strings.Join(hs, ","), fmt.Sprint(want), fmt.Sprint(mi.DSC))
			}
		}
	}
	// a CR LF line end before a %%+ line, with the CR on every offset around the scanner's refill boundaries
	// (the buffer holds 512 bytes): the LF of the pair is found by a further read
	for _, base := range []int{512, 1024, 1536, 4096} {
		for off := base - 6; off <= base+3; off++ {
			for _, eol := range []string{"\r\n", "\r", "\n"} {
				head := "%!PS-Adobe-3.0\n% "
				key := "%%Title: first"
				fill := off - len(head) - 1 - len(key)
				prog := head + strings.Repeat("x", fill) + "\n" + key + eol + "%%+ second" + eol + "%%Creator: c" + eol + "1 pop\n"
				if prog[off] != eol[0] {
					panic("DSC boundary case: line end not at the intended offset")
				}
				want := []postscript.Comment{{Key: "Title", Value: "first second"}, {Key: "Creator", Value: "c"}}
				line := runCaseLine(0, false, prog)
				_, intp := p.run(0, false, prog)
				o.count("DSC continuation with the line end at a refill boundary")
				if intp != nil && fmt.Sprint(intp.DSC) != fmt.Sprint(want) {
					o.fail("C04", "%%Key: value lines (with %%+ continuations) are collected in order", line, fmt.Sprint(want), fmt.Sprint(intp.DSC))
				}
			}
		}
	}
	// the library's own serialisation of any byte string / regular name reads back identically
	for i := 0; i < nr; i++ {
		s := make([]byte, r.intn(12))
		for j := range s {
			s[j] = byte(r.intn(256))
			if r.chance(1, 3) {
				const special = "()\\\r\n\t "
				s[j] = special[r.intn(len(special))]
			}
		}
		prog := "{" + postscript.String(s).PS() + "}"
		line := runCaseLine(0, false, prog)
		_, intp := p.run(0, false, prog)
		if intp != nil {
			o.count("String.PS round trips")
			checkProcContents(o, line, intp, []lexTok{{kind: "str", s: s}})
		}
		nm := randName(r)
		prog = "{" + postscript.Name(nm).PS() + "}"
		line = runCaseLine(0, false, prog)
		_, intp = p.run(0, false, prog)
		if intp != nil {
			o.count("Name.PS round trips")
			checkProcContents(o, line, intp, []lexTok{{kind: "name", s: []byte(nm)}})
		}
	}
	// the serialisers themselves, against their Lean model (Model/Serialise.lean), and back through the scanner
	serCase := func(kind string, b []byte) {
		line := "ser " + kind + " " + hx(b)
		out := func() (res string) {
			defer func() {
				if recover() != nil {
					res = "panic"
				}
			}()
			if kind == "s" {
				return hx([]byte(postscript.String(b).PS()))
			}
			return hx([]byte(postscript.Name(b).PS()))
		}()
		o.emit(line, out, out != "panic")
		if out == "panic" {
			return
		}
		prog := "{" + string(unhx(out)) + "}"
		_, intp, _ := runProgram(0, false, []byte(prog))
		if intp != nil {
			kd := map[string]string{"s": "str", "n": "name"}[kind]
			checkProcContents(o, line, intp, []lexTok{{kind: kd, s: b}})
		}
	}
	for a := 0; a < 256; a++ {
		serCase("s", []byte{byte(a)})
		serCase("n", []byte{byte(a)})
		for b := 0; b < 256; b++ {
			if tier == "thorough" || r.chance(1, 40) {
				serCase("s", []byte{byte(a), byte(b)})
				serCase("n", []byte{byte(a), byte(b)})
			}
		}
	}
	serCase("s", nil)
	// long strings with one byte that needs care at every position around 250, 500 and 64 kB (a serialiser that
	// breaks long literals into lines, or escapes in blocks, meets its block boundary here)
	for _, ln := range []int{700, 66000} {
		for _, special := range []byte{'\\', '(', ')', '\r', '\n', 0, 0x80, 0xff} {
			var positions []int
			if ln == 700 {
				for k := 230; k <= 275; k++ {
					positions = append(positions, k, k+250)
				}
			} else {
				positions = []int{65534, 65535, 65536, 65537}
			}
			for _, k := range positions {
				b := bytes.Repeat([]byte{'a'}, ln)
				b[k] = special
				if special == '\\' || special == '\r' {
					b[k+1] = pick(r, []byte{'n', '1', '\n', '(', 'a'})
				}
				serCase("s", b)
				o.count("long strings with a special byte near a block boundary")
			}
		}
	}
	for i := 0; i < nr; i++ {
		s := make([]byte, r.intn(40))
		for j := range s {
			s[j] = byte(r.intn(256))
			if r.chance(1, 2) {
				const special = "()()\\\r\n\t <>/%"
				s[j] = special[r.intn(len(special))]
			}
		}
		serCase("s", s)
		serCase("n", []byte(randName(r)))
	}
	o.count("serialiser cases")
	// near-number names and boundary numbers
	for _, c := range []struct {
		text string
		tok  lexTok
	}{
		{"0x1p-2", lexTok{kind: "op", s: []byte("0x1p-2")}}, {"1_0", lexTok{kind: "op", s: []byte("1_0")}}, {"1e", lexTok{kind: "op", s: []byte("1e")}},
		{"+.", lexTok{kind: "op", s: []byte("+.")}}, {"16#", lexTok{kind: "op", s: []byte("16#")}}, {"37#1", lexTok{kind: "op", s: []byte("37#1")}},
		{"1#0", lexTok{kind: "op", s: []byte("1#0")}}, {"Inf", lexTok{kind: "op", s: []byte("Inf")}}, {"NaN", lexTok{kind: "op", s: []byte("NaN")}},
		{"8#-17", lexTok{kind: "op", s: []byte("8#-17")}}, {"16#+FF", lexTok{kind: "op", s: []byte("16#+FF")}}, {"2#-0", lexTok{kind: "op", s: []byte("2#-0")}}, {"36#-z", lexTok{kind: "op", s: []byte("36#-z")}},
		{"8#1.5", lexTok{kind: "op", s: []byte("8#1.5")}}, {"8#1e2", lexTok{kind: "op", s: []byte("8#1e2")}}, {"8##1", lexTok{kind: "op", s: []byte("8##1")}}, {"8#1#2", lexTok{kind: "op", s: []byte("8#1#2")}},
		{"8#9", lexTok{kind: "op", s: []byte("8#9")}}, {"16#G", lexTok{kind: "op", s: []byte("16#G")}}, {"#1", lexTok{kind: "op", s: []byte("#1")}}, {"1.5#1", lexTok{kind: "op", s: []byte("1.5#1")}}, {"0#0", lexTok{kind: "op", s: []byte("0#0")}},
		{"--1", lexTok{kind: "op", s: []byte("--1")}}, {"+-1", lexTok{kind: "op", s: []byte("+-1")}}, {"1-", lexTok{kind: "op", s: []byte("1-")}}, {"1e+", lexTok{kind: "op", s: []byte("1e+")}}, {"1e1.5", lexTok{kind: "op", s: []byte("1e1.5")}},
		{"1..2", lexTok{kind: "op", s: []byte("1..2")}}, {".", lexTok{kind: "op", s: []byte(".")}}, {"-", lexTok{kind: "op", s: []byte("-")}}, {"e5", lexTok{kind: "op", s: []byte("e5")}}, {"0x10", lexTok{kind: "op", s: []byte("0x10")}},
		{"1,5", lexTok{kind: "op", s: []byte("1,5")}}, {"1'000", lexTok{kind: "op", s: []byte("1'000")}}, {"infinity", lexTok{kind: "op", s: []byte("infinity")}}, {"+inf", lexTok{kind: "op", s: []byte("+inf")}}, {"-nan", lexTok{kind: "op", s: []byte("-nan")}},
		{"8#777", lexTok{kind: "int", i: 511}}, {"16#FFFE", lexTok{kind: "int", i: 65534}}, {"36#zz", lexTok{kind: "int", i: 1295}}, {"2#1000", lexTok{kind: "int", i: 8}},
		{"9223372036854775807", lexTok{kind: "int", i: 9223372036854775807}}, {"-9223372036854775808", lexTok{kind: "int", i: -9223372036854775808}},
		{"9223372036854775808", lexTok{kind: "real", f: 9223372036854775808}}, {"123456789012345678901234567890", lexTok{kind: "real", f: 123456789012345678901234567890}},
		{"1.", lexTok{kind: "real", f: 1}}, {".5", lexTok{kind: "real", f: 0.5}}, {"-.5e1", lexTok{kind: "real", f: -5}}, {"1E3", lexTok{kind: "real", f: 1000}},
		{"(\\1234)", lexTok{kind: "str", s: []byte("S4")}}, {"(\\0)", lexTok{kind: "str", s: []byte{0}}}, {"(\\08)", lexTok{kind: "str", s: []byte{0, '8'}}},
		{"(a\\\nb)", lexTok{kind: "str", s: []byte("ab")}}, {"(a\r\nb)", lexTok{kind: "str", s: []byte("a\nb")}}, {"(a\rb)", lexTok{kind: "str", s: []byte("a\nb")}},
		{"<~s8W-!~>", lexTok{kind: "str", s: []byte{255, 255, 255, 255}}}, {"<~s8W-!s8W-!z~>", lexTok{kind: "str", s: []byte{255, 255, 255, 255, 255, 255, 255, 255, 0, 0, 0, 0}}},
		{"<~s8W*~>", lexTok{kind: "str", s: []byte{255, 255, 255}}}, {"<~s8N~>", lexTok{kind: "str", s: []byte{255, 255}}}, {"<~rr~>", lexTok{kind: "str", s: []byte{255}}},
		{"<~z~>", lexTok{kind: "str", s: []byte{0, 0, 0, 0}}}, {"<~!!~>", lexTok{kind: "str", s: []byte{0}}}, {"<~87cURD]i,\"Ebo80~>", lexTok{kind: "str", s: []byte("Hello World!")}},
		{"<901fa>", lexTok{kind: "str", s: []byte{0x90, 0x1f, 0xa0}}}, {"<>", lexTok{kind: "str", s: nil}}, {"()", lexTok{kind: "str", s: nil}},
	} {
		prog := "{" + c.text + "}"
		line := runCaseLine(0, false, prog)
		class, intp := p.run(0, false, prog)
		if intp != nil && class == "ok" {
			checkProcContents(o, line, intp, []lexTok{c.tok})
		} else if intp != nil {
			o.fail("C04", "a legal token is accepted", line, "ok", class)
		}
		o.count("fixed lexical forms")
	}
	// numbers spelled with many digits (leading zeros, long fractions, long exponents): lengths around the powers of two
	for _, ln := range []int{31, 32, 33, 63, 64, 65, 127, 128, 129, 255, 256, 257, 511, 512, 513, 1023, 1024, 1025, 2047, 2048, 2049, 4095, 4096, 4097, 8191, 8193, 40000} {
		z := func(k int) string { return strings.Repeat("0", max(k, 0)) }
		for _, c := range []struct {
			text string
			tok  lexTok
		}{
			{z(ln-1) + "7", lexTok{kind: "int", i: 7}}, {"-" + z(ln-2) + "7", lexTok{kind: "int", i: -7}}, {"3." + z(ln-3) + "5", lexTok{kind: "real", f: 3}}, {z(ln-2) + ".5", lexTok{kind: "real", f: 0.5}},
			{"1e" + z(ln-3) + "2", lexTok{kind: "real", f: 100}}, {"16#" + z(ln-5) + "fF", lexTok{kind: "int", i: 255}}, {"1" + z(min(ln, 700)-4) + "e-" + fmt.Sprint(min(ln, 700)-4), lexTok{kind: "real", f: 1}}, // (strconv.ParseFloat of go1.23 misplaces the point beyond 800 digits)
		} {
			if len(c.text) != ln && !strings.Contains(c.text, "e-") {
				continue // lengths below the shortest spelling of a form
			}
			prog := "{" + c.text + "}"
			line := runCaseLine(0, false, prog)
			_, intp, class := runProgram(0, false, []byte(prog))
			if ln <= 600 {
				p.run(0, false, prog) // also through the model
			}
			if intp != nil && class == "ok" {
				if c.tok.kind == "real" && c.tok.f == 3 {
					// 3.000...05: the nearest float64
					c.tok.f, _ = strconv.ParseFloat(c.text, 64)
				}
				checkProcContents(o, line, intp, []lexTok{c.tok})
			} else if intp != nil {
				o.fail("C04", "a legal token is accepted", line, "ok", class)
			}
			o.count("numbers with many digits")
		}
	}
	// every byte string up to length 1 (quick) / 2 (thorough), through implementation and model
	maxLen := 1
	if tier == "thorough" {
		maxLen = 2
	}
	var rec func(prefix []byte, depth int)
	rec = func(prefix []byte, depth int) {
		p.run(200, false, string(prefix))
		o.count("exhaustive short byte strings")
		if depth == 0 {
			return
		}
		for b := 0; b < 256; b++ {
			rec(append(append([]byte{}, prefix...), byte(b)), depth-1)
		}
	}
	rec(nil, maxLen)
	for i := 0; i < nr/2; i++ {
		b := make([]byte, 3)
		for j := range b {
			b[j] = byte(r.intn(256))
		}
		p.run(200, false, string(b))
		o.count("random 3-byte strings")
	}
	o.notes = append(o.notes, "object sequences x spellings (decimal/radix/real with exponent, literal strings with per-byte raw/octal/named escapes, continuations and raw line ends, hex with white space and odd digits, ASCII85 with z and every tail length, literal and executable names over the regular alphabet incl. bytes >= 128) x separators (six white-space bytes, CRLF, comments ended by LF/CR/CRLF, nothing where delimiters allow); DSC comments with continuations; String.PS / Name.PS round trips over all byte values; near-number names; every byte string up to length 1 (quick) / 2 (thorough); the tokens are read through `{ ... }` and checked against the generator's object list; every program also runs through the Lean scanner/interpreter model")
}

// ---------------------------------------------------------------- eexec (C05)

func hexArmour(r *rng, cipher []byte) string {
	digits := pick(r, []string{"0123456789abcdef", "0123456789ABCDEF"})
	var sb strings.Builder
	for i, c := range cipher {
		sb.WriteByte(digits[c>>4])
		if i >= 2 && r.chance(1, 9) {
			sb.WriteString(pick(r, []string{" ", "\n", "\r\n", "\t"}))
		}
		sb.WriteByte(digits[c&15])
		if i >= 1 && r.chance(1, 7) {
			sb.WriteString(pick(r, []string{" ", "\n", "\r", "\t"}))
		}
	}
	return sb.String()
}

func stateWithoutCount(line string) string {
	// drop the `n=<NumOps>` field: the two programs differ in bookkeeping operators
	f := strings.SplitN(line, " ", 3)
	if len(f) < 3 {
		return line
	}
	return f[0] + " " + f[2]
}

func suiteEexec(o *suiteOut, r *rng, tier string, n int) {
	p := newProgSuite(o, "C05")
	for _, l := range corpusLines("eexec") {
		replayRun(o, l)
		o.count("corpus cases")
	}
	nr := 1500
	if tier == "thorough" {
		nr = 60000
	}
	if n > 0 {
		nr = n
	}
	for i := 0; i < nr; i++ {
		// plaintext: a data/control program, possibly with embedded binary strings
		var plain bytes.Buffer
		if r.chance(1, 2) {
			g := &progGen{r: r}
			plain.WriteString(g.dataProgram(r.rangeInt(2, 15), false))
		} else {
			g := &ctlGen{r: r}
			plain.WriteString(g.body(r.rangeInt(1, 2), false))
		}
		plain.WriteString(" ")
		// the plaintext must be a complete program: it runs to its end without error and
		// leaves no procedure body open (otherwise `closefile` is never executed)
		complete := func(body []byte) (*postscript.Interpreter, bool) {
			probe := append(append([]byte("systemdict begin "), body...), []byte(" /sentinel__ 1 def")...)
			_, pi, pc := runProgram(100000, false, probe)
			return pi, pc == "ok" && pi.SystemDict["sentinel__"] != nil && len(pi.DictStack) == 3
		}
		if _, ok := complete(plain.Bytes()); !ok {
			continue
		}
		// binary strings read with readstring: exactly one byte separates the operator from the data, and the
		// data may start with any byte (white space included)
		bins := map[string][]byte{}
		for k := r.intn(3); k > 0; k-- {
			ln := r.intn(12)
			bin := make([]byte, ln)
			for j := range bin {
				bin[j] = byte(r.intn(256))
				if j == 0 && r.chance(1, 2) {
					bin[j] = pick(r, []byte{' ', '\n', '\r', '\t', 0, '\f'})
				}
			}
			// as in Type 1 fonts: the operator runs inside a procedure, the data follows the procedure's name
			// exactly one byte (blank, tab, LF or CR) separates the name from the data
			fmt.Fprintf(&plain, "/RD__ {string currentfile exch readstring pop} def %d RD__%s", ln, pick(r, []string{" ", " ", "\n", "\r", "\t"}))
			plain.Write(bin)
			plain.WriteString(" /s" + fmt.Sprint(k) + "__ exch def ")
			bins["s"+fmt.Sprint(k)+"__"] = bin
		}
		body := plain.Bytes()
		if len(bins) > 0 {
			pi, ok := complete(body)
			line := "run 100000 0 " + hx(append([]byte("systemdict begin "), body...))
			if !ok {
				o.fail("C05", "binary data read with readstring is delivered byte-exact (plain text run)", line, "program completes", "error or incomplete")
				continue
			}
			for k, want := range bins {
				got, _ := pi.SystemDict[postscript.Name(k)].(postscript.String)
				if !bytes.Equal([]byte(got), want) {
					o.fail("C05", "binary data read with readstring is delivered byte-exact (plain text run)", line, fmt.Sprintf("%s = %x", k, want), fmt.Sprintf("%x", []byte(got)))
				}
			}
		}
		var trailerClear string
		prefix := pick(r, []string{"", "/before 1 def ", "%!PS\n5 dict begin /x 2 def end\n", "1 2 "})
		if r.chance(1, 12) {
			// a deep dictionary stack: 17, 18 or 19 dictionaries when the section begins (the limit is 20)
			prefix += strings.Repeat("1 dict begin ", pick(r, []int{15, 16, 17}))
		}
		trailer := pick(r, []string{"", "\n" + strings.Repeat("0", 64) + "\ncleartomark /after 3 def", " 7 8", "\ncleartomark"})
		var iv [4]byte
		form := pick(r, []string{"hex", "binary"})
		for {
			for k := range iv {
				iv[k] = byte(r.intn(256))
				if r.chance(1, 6) {
					iv[k] = pick(r, []byte{0, ' ', '\n', '0', 'a', 'F', 255, 'g'})
				}
			}
			c := cipherEncrypt(55665, iv[:])
			allHex := isHexDigit(c[0]) && isHexDigit(c[1]) && isHexDigit(c[2]) && isHexDigit(c[3])
			white := c[0] == ' ' || c[0] == '\t' || c[0] == '\r' || c[0] == '\n'
			if form == "hex" || (!allHex && !white) {
				break
			}
		}
		// the section may leave the dictionary stack unbalanced: closing it restores the depth it had before
		unbal, fix := "", "end "
		switch r.intn(6) {
		case 0:
			unbal, fix = "3 dict begin /x__ 1 def ", "end end "
		case 1:
			unbal, fix = "end ", ""
		case 2:
			unbal, fix = "2 dict begin 2 dict begin ", "end end end "
		}
		body = append(body, []byte(unbal)...)
		// a second encrypted part later in the same stream starts with a fresh cipher state
		if r.chance(1, 4) {
			second := cipherEncrypt(55665, append([]byte{'X', 0, 0, 0}, []byte("/second__ 2 def mark currentfile closefile\n")...))
			sec := "\ncleartomark currentfile eexec\n"
			secClear := "\ncleartomark systemdict begin /second__ 2 def mark end "
			if r.chance(1, 2) {
				sec += hexArmour(r, second)
			} else {
				sec += string(second)
			}
			trailer2 := pick(r, []string{"\ncleartomark", "\n" + strings.Repeat("0", 64) + "\ncleartomark /after2 4 def"})
			trailerClear = secClear + trailer2
			trailer = sec + trailer2
		} else {
			trailerClear = trailer
		}
		// the delimiter after closefile is part of the encrypted text: LF, CR, blank or tab
		inner := append(append([]byte{}, body...), []byte("mark currentfile closefile"+pick(r, []string{"\n", "\n", "\r", " ", "\t"}))...)
		cipher := cipherEncrypt(55665, append(iv[:], inner...))
		var enc bytes.Buffer
		enc.WriteString(prefix)
		enc.WriteString("currentfile eexec" + pick(r, []string{"\n", " ", "\r\n", "\n\n"}))
		if form == "hex" {
			enc.WriteString(hexArmour(r, cipher))
		} else {
			enc.Write(cipher)
		}
		enc.WriteString(trailer)
		var clear bytes.Buffer
		clear.WriteString(prefix)
		clear.WriteString("systemdict begin ")
		clear.Write(body)
		clear.WriteString("mark " + fix)
		clear.WriteString(trailerClear)
		lineE := runCaseLine(100000, false, enc.String())
		classE, intpE := p.run(100000, false, enc.String())
		if intpE == nil {
			continue
		}
		resE, _, _ := runProgram(100000, false, enc.Bytes())
		resC, _, classC := runProgram(100000, false, clear.Bytes())
		o.count("form " + form)
		if classE != classC || (classE == "ok" && stateWithoutCount(resE) != stateWithoutCount(resC)) {
			o.fail("C05", "executing the encrypted section has exactly the effect of executing the plaintext with systemdict pushed", lineE, stateWithoutCount(resC), stateWithoutCount(resE))
		}
	}
	// sections whose plaintext pops more dictionaries than the section pushed (no clear-text program is equivalent:
	// closing the section puts the stack back to its old depth; implementation against the model only)
	for _, unbal := range []string{"end end ", "end end end ", "end end 5 dict begin ", "end end 5 dict begin end ", "end end end 2 dict begin /q 1 def ", "end 1 dict begin end end "} {
		for _, form := range []string{"hex", "binary"} {
			inner := []byte(unbal + "mark currentfile closefile\n")
			cipher := cipherEncrypt(55665, append([]byte{0xF1, 'x', 'y', 'z'}, inner...))
			prog := "/D 5 dict def D begin /a 1 def 3 dict begin /b 2 def currentfile eexec\n"
			if form == "hex" {
				prog += hexArmour(r, cipher)
			} else {
				prog += string(cipher)
			}
			prog += "\n" + strings.Repeat("0", 64) + "\ncleartomark /after 7 def currentdict length"
			p.run(100000, false, prog)
			o.count("sections that pop more dictionaries than they pushed")
		}
	}
	// a structured comment on the first line of the plaintext, for lead bytes ending in a line end or not
	for _, last := range []byte{'\n', '\r', 'z', ' ', 0} {
		inner := []byte("%%Foo: bar\n%%Baz: 1\n1 2 add mark currentfile closefile\n")
		cipher := cipherEncrypt(55665, append([]byte{0xF1, 'x', 'y', last}, inner...))
		enc := "%!\ncurrentfile eexec\n" + fmt.Sprintf("%x", cipher) + "\n" + strings.Repeat("0", 64) + "\ncleartomark 99\n"
		clear := "%!\nsystemdict begin\n%%Foo: bar\n%%Baz: 1\n1 2 add mark end \n" + strings.Repeat("0", 64) + "\ncleartomark 99\n"
		lineE := runCaseLine(100000, false, enc)
		classE, intpE := p.run(100000, false, enc)
		if intpE == nil {
			continue
		}
		resE, _, _ := runProgram(100000, false, []byte(enc))
		resC, _, classC := runProgram(100000, false, []byte(clear))
		o.count("structured comment on the first plaintext line")
		if classE != classC || stateWithoutCount(resE) != stateWithoutCount(resC) {
			o.fail("C05", "executing the encrypted section has exactly the effect of executing the plaintext (structured comment on the first plaintext line)", fmt.Sprintf("eexec-dsc lead byte 4 = %#02x; %s", last, lineE), lastN(stateWithoutCount(resC), 200), lastN(stateWithoutCount(resE), 200))
		}
	}
	o.notes = append(o.notes, "plaintext programs (data and control programs, embedded binary strings read with readstring) x {hex upper/lower with white space at any position after the first four digits, binary} x random and boundary four-byte prefixes legal for the form x prefixes and trailers (zeros + cleartomark); direct oracle: canonical interpreter state after the encrypted program = state after the plaintext program run inside `systemdict begin ... end`; every encrypted program also runs through the Lean model of the scanner's eexec mode")
	_ = postscript.ErrNoPostScript
}

func init() {
	suites["lex"] = suiteLex
	replayers["ser"] = func(o *suiteOut, line string) {
		f := strings.Split(line, " ")
		b := unhx(f[2])
		out := func() (res string) {
			defer func() {
				if recover() != nil {
					res = "panic"
				}
			}()
			if f[1] == "s" {
				return hx([]byte(postscript.String(b).PS()))
			}
			return hx([]byte(postscript.Name(b).PS()))
		}()
		o.emit(line, out, true)
		if out != "panic" {
			_, intp, _ := runProgram(0, false, []byte("{"+string(unhx(out))+"}"))
			checkProcContents(o, line, intp, []lexTok{{kind: map[string]string{"s": "str", "n": "name"}[f[1]], s: b}})
		}
	}
	suites["eexec"] = suiteEexec
}

func lastN(s string, n int) string {
	if len(s) > n {
		return s[len(s)-n:]
	}
	return s
}
