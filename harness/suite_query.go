package main

// Suite `query` (C19): glyph list, boxes and widths of type1.Font and afm.Metrics.

import (
	"fmt"
	"io"
	"math"
	"sort"
	"strings"

	"seehuhn.de/go/geom/rect"
	"seehuhn.de/go/postscript/afm"
	"seehuhn.de/go/postscript/funit"
	"seehuhn.de/go/postscript/type1"
)

func hexNames(names []string) string {
	if len(names) == 0 {
		return "-"
	}
	p := make([]string, len(names))
	for i, n := range names {
		p[i] = hx([]byte(n))
	}
	return strings.Join(p, ",")
}

// checkGlyphList is the direct oracle for the glyph list (C19).
func checkGlyphList(o *suiteOut, caseLine string, list []string, keys map[string]bool, enc []string, num int) {
	fail := func(what, exp, got string) { o.fail("C19", what, caseLine, exp, got) }
	if len(list) != num {
		fail("glyph list length equals the reported glyph count", fmt.Sprint(num), fmt.Sprint(len(list)))
	}
	if len(list) == 0 || list[0] != ".notdef" {
		fail("glyph list starts with .notdef", ".notdef", fmt.Sprint(list))
		return
	}
	seen := map[string]bool{}
	for _, n := range list {
		if seen[n] {
			fail("each glyph exactly once", "no duplicates", n)
		}
		seen[n] = true
	}
	for k := range keys {
		if !seen[k] {
			fail("each glyph exactly once", "contains "+k, "missing")
		}
	}
	if len(seen) != len(keys)+b2i(!keys[".notdef"]) {
		fail("each glyph exactly once", "only glyphs of the font", fmt.Sprint(list))
	}
	// codes of each name
	codes := map[string][]int{}
	for i, n := range enc {
		if n != ".notdef" {
			codes[n] = append(codes[n], i)
		}
	}
	// encoded glyphs first, in code order for some choice of one code per glyph; then the rest by name
	phase, last, lastName := 0, -1, ""
	for _, n := range list[1:] {
		cs := codes[n]
		if len(cs) > 0 {
			if phase != 0 {
				fail("encoded glyphs come before the unencoded ones", "encoded first", n)
				return
			}
			// greedy: the smallest code >= last keeps the sequence sortable
			ok := false
			for _, c := range cs {
				if c >= last {
					last = c
					ok = true
					break
				}
			}
			if !ok {
				fail("encoded glyphs in code order", "non-decreasing codes", fmt.Sprint(list))
				return
			}
		} else {
			if phase == 1 && n < lastName {
				fail("remaining glyphs alphabetically", "sorted names", fmt.Sprint(list))
				return
			}
			phase = 1
			lastName = n
		}
	}
}

func b2i(b bool) int {
	if b {
		return 1
	}
	return 0
}

func rectStr(r rect.Rect) string {
	return fmt.Sprintf("%d %d %d %d", int64(r.LLx), int64(r.LLy), int64(r.URx), int64(r.URy))
}

func nearF(a, b float64) bool {
	return a == b || math.Abs(a-b) <= 1e-9*math.Max(1, math.Max(math.Abs(a), math.Abs(b)))
}

func rectNear(a, b rect.Rect) bool {
	return nearF(a.LLx, b.LLx) && nearF(a.LLy, b.LLy) && nearF(a.URx, b.URx) && nearF(a.URy, b.URy)
}

func endPoints(cmds []type1.GlyphOp) [][2]float64 {
	var pts [][2]float64
	for _, c := range cmds {
		switch c.Op {
		case type1.OpMoveTo, type1.OpLineTo:
			pts = append(pts, [2]float64{c.Args[0], c.Args[1]})
		case type1.OpCurveTo:
			pts = append(pts, [2]float64{c.Args[4], c.Args[5]})
		}
	}
	return pts
}

func boxOf(pts [][2]float64) rect.Rect {
	var r rect.Rect
	for i, p := range pts {
		if i == 0 {
			r = rect.Rect{LLx: p[0], LLy: p[1], URx: p[0], URy: p[1]}
			continue
		}
		r.LLx = math.Min(r.LLx, p[0])
		r.URx = math.Max(r.URx, p[0])
		r.LLy = math.Min(r.LLy, p[1])
		r.URy = math.Max(r.URy, p[1])
	}
	return r
}

func unionBoxes(boxes []rect.Rect) rect.Rect {
	var r rect.Rect
	first := true
	for _, b := range boxes {
		if b.IsZero() {
			continue
		}
		if first {
			r = b
			first = false
			continue
		}
		r.LLx = math.Min(r.LLx, b.LLx)
		r.URx = math.Max(r.URx, b.URx)
		r.LLy = math.Min(r.LLy, b.LLy)
		r.URy = math.Max(r.URy, b.URy)
	}
	return r
}

// (with names that sort before ".notdef" bytewise: the list starts with .notdef because of its key, not its spelling)
var queryNames = []string{".notdef", "A", "B", "AE", "a", "b", "space", "zero", "one", "Z", "z", "aa", "a.alt", "f_i", "exclam", "uni0041", "x", "Aacute", "germandbls", "at",
	"+plus", ".cap", "-", ".a", "$", ".", ".notde", ".notdef2", "0zero"}

func randEncoding(r *rng, present []string) []string {
	if r.chance(1, 5) {
		return nil
	}
	enc := make([]string, 256)
	for i := range enc {
		enc[i] = ".notdef"
	}
	pool := append(append([]string{}, present...), "missing1", "missing2")
	for k := r.intn(12); k > 0; k-- {
		enc[r.intn(256)] = pick(r, pool)
	}
	for k := r.intn(3); k > 0; k-- { // the same glyph at several codes
		n := pick(r, pool)
		enc[r.intn(256)] = n
		enc[r.intn(256)] = n
	}
	return enc
}

func suiteQuery(o *suiteOut, r *rng, tier string, n int) {
	nr := 1500
	if tier == "thorough" {
		nr = 60000
	}
	if n > 0 {
		nr = n
	}
	for i := 0; i < nr; i++ {
		// ---- a Type 1 font with integer coordinates
		f := newTestFont()
		// scales next to the customary 0.001 and tiny translations count: a box in PDF units is the exact image
		sx, sy := pick(r, []float64{0.001, 0.001, 0.002, 0.0005, 1, -0.001, 0.0009995, 0.0010004, 0.001 + 9e-7, 0.000999}), pick(r, []float64{0.001, 0.001, 0.002, 1, 0.0009996, 0.0010009})
		tx, ty := float64(r.rangeInt(-2, 2)), float64(r.rangeInt(-2, 2))
		if r.chance(1, 5) {
			tx, ty = pick(r, []float64{9e-7, -9e-7, 5e-7, 0.0005}), pick(r, []float64{9e-7, -8e-7, 0})
		}
		if r.chance(1, 20) {
			// degenerate matrices: all zeros (the zero value of the field), one scale zero
			sx, sy, tx, ty = 0, 0, 0, 0
			if r.chance(1, 2) {
				sx, sy = pick(r, []float64{0, 0.001}), pick(r, []float64{0, 0.001})
			}
		}
		f.FontInfo.FontMatrix = [6]float64{sx, 0, 0, sy, tx, ty}
		var present []string
		for _, nm := range queryNames {
			if r.chance(2, 5) {
				present = append(present, nm)
			}
		}
		keys := map[string]bool{}
		var boxes, boxesPDF []rect.Rect
		M := f.FontInfo.FontMatrix
		var glyphCases []string
		for _, nm := range present {
			g := randPath(r, r.intn(7), 1, pick(r, []int{3, 1000}), true)
			if r.chance(1, 6) {
				g.cmds = nil
			}
			f.Glyphs[nm] = &type1.Glyph{Cmds: g.cmds, WidthX: g.wx}
			keys[nm] = true
			pts := endPoints(g.cmds)
			want := boxOf(pts)
			got := f.Glyphs[nm].BBox()
			var ps []string
			var mapped [][2]float64
			for _, p := range pts {
				ps = append(ps, fmt.Sprintf("%d:%d", int64(p[0]), int64(p[1])))
				mapped = append(mapped, [2]float64{(p[0]*M[0] + p[1]*M[2] + M[4]) * 1000, (p[0]*M[1] + p[1]*M[3] + M[5]) * 1000})
			}
			pl := "-"
			if len(ps) > 0 {
				pl = strings.Join(ps, ";")
			}
			line := "bbox " + pl
			if got != want {
				o.fail("C19", "glyph box is the smallest rectangle containing the end points", line, fmt.Sprint(want), fmt.Sprint(got))
			}
			o.emit(line, rectStr(got), len(pts) > 1)
			gotPDF := f.GlyphBBoxPDF(nm)
			wantPDF := boxOf(mapped)
			if !rectNear(gotPDF, wantPDF) {
				o.fail("C19", "PDF glyph box = end points mapped through font matrix x 1000", line+fmt.Sprint(" matrix ", M), fmt.Sprint(wantPDF), fmt.Sprint(gotPDF))
			}
			boxes = append(boxes, got)
			boxesPDF = append(boxesPDF, gotPDF)
			glyphCases = append(glyphCases, fmt.Sprintf("%d:%d:%d:%d", int64(got.LLx), int64(got.LLy), int64(got.URx), int64(got.URy)))
			// widths
			q := M[0] * 1000
			wm := f.WidthsMapPDF()
			if w := f.GlyphWidthPDF(nm); !nearF(w, g.wx*q) || w != wm[nm] {
				o.fail("C19", "PDF width = advance width x horizontal scale x 1000, same in the per-glyph call and the map", "width "+nm, fmt.Sprint(g.wx*q, wm[nm]), fmt.Sprint(w))
			}
		}
		if z := f.GlyphBBoxPDF("nonexistent"); !z.IsZero() {
			o.fail("C19", "missing glyph has the zero box", "bboxpdf nonexistent", "zero", fmt.Sprint(z))
		}
		wantAbsent := 0.0
		if g, ok := f.Glyphs[".notdef"]; ok {
			wantAbsent = g.WidthX * M[0] * 1000
		}
		if w := f.GlyphWidthPDF("nonexistent"); !nearF(w, wantAbsent) {
			o.fail("C19", "unknown names fall back to .notdef's width or 0", "width nonexistent", fmt.Sprint(wantAbsent), fmt.Sprint(w))
		}
		// font boxes (the model gets the boxes in sorted-name order; the result must not depend on the order)
		fb := f.FontBBox()
		if fb != unionBoxes(boxes) {
			o.fail("C19", "font box is the union of the non-empty glyph boxes", "fbox t1 "+strings.Join(glyphCases, ";"), fmt.Sprint(unionBoxes(boxes)), fmt.Sprint(fb))
		}
		if len(glyphCases) > 0 {
			o.emit("fbox t1 "+strings.Join(glyphCases, ";"), rectStr(fb), len(glyphCases) > 1)
		}
		if fbp := f.FontBBoxPDF(); !rectNear(fbp, unionBoxes(boxesPDF)) {
			o.fail("C19", "PDF font box is the union of the non-empty PDF glyph boxes", "fboxpdf", fmt.Sprint(unionBoxes(boxesPDF)), fmt.Sprint(fbp))
		}
		// glyph list
		f.Encoding = randEncoding(r, present)
		list := f.GlyphList()
		sort.Strings(present)
		enc := f.Encoding
		line := fmt.Sprintf("glist %s %s", hexNames(present), hexNames(enc))
		checkGlyphList(o, line, list, keys, enc, f.NumGlyphs())
		o.emit(line, hexNames(list)+" "+fmt.Sprint(f.NumGlyphs()), len(present) > 1)
		o.count("type1 fonts")

		// ---- afm metrics with the same glyph set
		m := &afm.Metrics{Glyphs: map[string]*afm.GlyphInfo{}, Encoding: enc}
		var abox []rect.Rect
		var acases []string
		for _, nm := range present {
			x0, y0 := float64(r.rangeInt(-500, 500)), float64(r.rangeInt(-500, 500))
			b := rect.Rect{LLx: x0, LLy: y0, URx: x0 + float64(r.rangeInt(0, 900)), URy: y0 + float64(r.rangeInt(0, 900))}
			if r.chance(1, 5) {
				b = rect.Rect{}
			}
			m.Glyphs[nm] = &afm.GlyphInfo{WidthX: float64(r.rangeInt(0, 1200)), BBox: b}
			abox = append(abox, b)
			acases = append(acases, fmt.Sprintf("%d:%d:%d:%d", int64(b.LLx), int64(b.LLy), int64(b.URx), int64(b.URy)))
		}
		alist := m.GlyphList()
		aline := fmt.Sprintf("glist %s %s", hexNames(present), hexNames(enc))
		checkGlyphList(o, "afm "+aline, alist, keys, enc, m.NumGlyphs())
		o.emit(aline, hexNames(alist)+" "+fmt.Sprint(m.NumGlyphs()), len(present) > 1)
		if fb := m.FontBBoxPDF(); fb != unionBoxes(abox) {
			o.fail("C19", "afm font box is the union of the non-empty glyph boxes", "fbox afm "+strings.Join(acases, ";"), fmt.Sprint(unionBoxes(abox)), fmt.Sprint(fb))
		} else if len(acases) > 0 {
			o.emit("fbox afm "+strings.Join(acases, ";"), rectStr(fb), len(acases) > 1)
		}
		for _, nm := range append(append([]string{}, present...), "nonexistent") {
			want := 0.0
			if g, ok := m.Glyphs[nm]; ok {
				want = g.WidthX
			} else if g, ok := m.Glyphs[".notdef"]; ok {
				want = g.WidthX
			}
			if w := m.GlyphWidthPDF(nm); w != want {
				o.fail("C19", "afm width falls back to .notdef or 0", "afmwidth "+nm, fmt.Sprint(want), fmt.Sprint(w))
			}
		}
		o.count("afm metrics")
		// a nil entry in Glyphs is skipped like a blank glyph (Write and GlyphWidthPDF check for it explicitly)
		if i%10 == 0 {
			wantBox := m.FontBBoxPDF()
			m.Glyphs["zz-nil"] = nil
			res := func() (s string) {
				defer func() {
					if p := recover(); p != nil {
						s = "panic: " + fmt.Sprint(p)
					}
				}()
				if fb := m.FontBBoxPDF(); fb != wantBox {
					return "font box " + fmt.Sprint(fb)
				}
				m.GlyphWidthPDF("zz-nil")
				if err := m.Write(io.Discard); err != nil {
					return "write: " + err.Error()
				}
				return ""
			}()
			if res != "" {
				o.fail("C19", "a nil entry in Metrics.Glyphs counts as a blank glyph in every query", "afm nil glyph "+aline, "font box "+fmt.Sprint(wantBox), res)
			}
			delete(m.Glyphs, "zz-nil")
			// ... also when the nil entry is the one of .notdef: the list and the count speak about the same glyphs
			saved, had := m.Glyphs[".notdef"]
			m.Glyphs[".notdef"] = nil
			keys2 := map[string]bool{".notdef": true}
			for k := range keys {
				keys2[k] = true
			}
			func() {
				defer func() {
					if p := recover(); p != nil {
						o.fail("C19", "a nil entry for .notdef causes no panic", "afm nil .notdef "+aline, "no panic", fmt.Sprint(p))
					}
				}()
				checkGlyphList(o, "afm nil .notdef "+aline, m.GlyphList(), keys2, enc, m.NumGlyphs())
				if w := m.GlyphWidthPDF("nonexistent"); w != 0 {
					o.fail("C19", "afm width falls back to .notdef or 0", "afm nil .notdef width "+aline, "0", fmt.Sprint(w))
				}
			}()
			if had {
				m.Glyphs[".notdef"] = saved
			} else {
				delete(m.Glyphs, ".notdef")
			}
			o.count("afm metrics with a nil entry")
		}
	}
	funitExtendCases(o, r, nr)
	o.notes = append(o.notes, "funit.Rect16.Extend / funit.Rect.Extend: accumulation of random box sequences with blank (zero) boxes at every position, against the union of the non-zero boxes and against the Lean model (fbox funit16 / funit)")
	o.notes = append(o.notes, "random glyph sets (with/without .notdef), encodings (absent, partial, naming missing glyphs, one glyph at several codes), integer end points, axis-aligned font matrices; every query method against an independent recomputation; glyph lists, boxes and font boxes also against the Lean model")
}

func unhexNames(s string) []string {
	if s == "-" {
		return nil
	}
	var res []string
	for _, p := range strings.Split(s, ",") {
		res = append(res, string(unhx(p)))
	}
	return res
}

// replayQuery re-runs a single glist / bbox / fbox case on the implementation.
func replayQuery(o *suiteOut, line string) {
	f := strings.Split(line, " ")
	switch f[0] {
	case "glist":
		font := newTestFont()
		keys := map[string]bool{}
		for _, n := range unhexNames(f[1]) {
			font.Glyphs[n] = &type1.Glyph{}
			keys[n] = true
		}
		font.Encoding = unhexNames(f[2])
		list := font.GlyphList()
		checkGlyphList(o, line, list, keys, font.Encoding, font.NumGlyphs())
		o.emit(line, hexNames(list)+" "+fmt.Sprint(font.NumGlyphs()), true)
	case "bbox":
		g := &type1.Glyph{}
		var pts [][2]float64
		if f[1] != "-" {
			for i, p := range strings.Split(f[1], ";") {
				var x, y float64
				fmt.Sscanf(strings.ReplaceAll(p, ":", " "), "%g %g", &x, &y)
				pts = append(pts, [2]float64{x, y})
				if i == 0 {
					g.MoveTo(x, y)
				} else {
					g.LineTo(x, y)
				}
			}
		}
		got := g.BBox()
		if got != boxOf(pts) {
			o.fail("C19", "glyph box is the smallest rectangle containing the end points", line, fmt.Sprint(boxOf(pts)), fmt.Sprint(got))
		}
		o.emit(line, rectStr(got), true)
	case "fbox":
		var boxes []rect.Rect
		for _, p := range strings.Split(f[2], ";") {
			var b rect.Rect
			fmt.Sscanf(strings.ReplaceAll(p, ":", " "), "%g %g %g %g", &b.LLx, &b.LLy, &b.URx, &b.URy)
			boxes = append(boxes, b)
		}
		var got rect.Rect
		if f[1] == "afm" {
			m := &afm.Metrics{Glyphs: map[string]*afm.GlyphInfo{}}
			for i, b := range boxes {
				m.Glyphs[fmt.Sprintf("g%d", i)] = &afm.GlyphInfo{BBox: b}
			}
			got = m.FontBBoxPDF()
		} else {
			font := newTestFont()
			for i, b := range boxes {
				g := &type1.Glyph{}
				if !b.IsZero() {
					g.MoveTo(b.LLx, b.LLy)
					g.LineTo(b.URx, b.URy)
				}
				font.Glyphs[fmt.Sprintf("g%d", i)] = g
			}
			got = font.FontBBox()
		}
		if got != unionBoxes(boxes) {
			o.fail("C19", "font box is the union of the non-empty glyph boxes", line, fmt.Sprint(unionBoxes(boxes)), fmt.Sprint(got))
		}
		o.emit(line, rectStr(got), true)
	}
}

func init() {
	suites["query"] = suiteQuery
	replayers["glist"] = replayQuery
	replayers["bbox"] = replayQuery
	replayers["fbox"] = replayQuery
}

// funitExtendCases: the union code of package funit (used by callers that accumulate a font box over glyph boxes)
func funitExtendCases(o *suiteOut, r *rng, nr int) {
	type box struct{ llx, lly, urx, ury int }
	for i := 0; i < nr; i++ {
		n := r.rangeInt(0, 6)
		var bs []box
		for j := 0; j < n; j++ {
			if r.chance(1, 3) {
				bs = append(bs, box{}) // blank glyph
				continue
			}
			x, y := r.rangeInt(-1000, 1000), r.rangeInt(-1000, 1000)
			bs = append(bs, box{x, y, x + r.rangeInt(0, 1200), y + r.rangeInt(0, 1200)})
		}
		// expected: union of the non-zero boxes
		var want box
		first := true
		var cases []string
		for _, b := range bs {
			cases = append(cases, fmt.Sprintf("%d:%d:%d:%d", b.llx, b.lly, b.urx, b.ury))
			if b == (box{}) {
				continue
			}
			if first {
				want, first = b, false
				continue
			}
			want = box{min(want.llx, b.llx), min(want.lly, b.lly), max(want.urx, b.urx), max(want.ury, b.ury)}
		}
		var r16 funit.Rect16
		var rr funit.Rect
		for _, b := range bs {
			r16.Extend(funit.Rect16{LLx: funit.Int16(b.llx), LLy: funit.Int16(b.lly), URx: funit.Int16(b.urx), URy: funit.Int16(b.ury)})
			rr.Extend(funit.Rect{LLx: funit.Int(b.llx), LLy: funit.Int(b.lly), URx: funit.Int(b.urx), URy: funit.Int(b.ury)})
		}
		got16 := box{int(r16.LLx), int(r16.LLy), int(r16.URx), int(r16.URy)}
		got := box{int(rr.LLx), int(rr.LLy), int(rr.URx), int(rr.URy)}
		line := strings.Join(cases, ";")
		if got16 != want || r16.IsZero() != (want == box{}) {
			o.fail("C19", "funit.Rect16.Extend accumulates the union of the non-empty boxes", "fbox funit16 "+line, fmt.Sprint(want), fmt.Sprint(got16))
		}
		if got != want || rr.IsZero() != (want == box{}) {
			o.fail("C19", "funit.Rect.Extend accumulates the union of the non-empty boxes", "fbox funit "+line, fmt.Sprint(want), fmt.Sprint(got))
		}
		if len(cases) > 0 {
			o.emit("fbox funit16 "+line, fmt.Sprintf("%d %d %d %d", got16.llx, got16.lly, got16.urx, got16.ury), len(cases) > 1)
			o.emit("fbox funit "+line, fmt.Sprintf("%d %d %d %d", got.llx, got.lly, got.urx, got.ury), len(cases) > 1)
		}
		o.count("funit box accumulations")
	}
}
