package main

// Suite `numbers` (C20, also the encoder part of C08/C09): glyphs are written by
// the real Font.Write, the charstrings are recovered with the independent
// decoder of t1spec.go, and
//   - the raw charstring bytes are the implementation line that is diffed
//     against the Lean model `encodeCharString` (exact-arithmetic inputs only);
//   - the direct oracle of C20 checks, with exact rational arithmetic, that
//     every integer decodes to itself and every point is within 1/214.

import (
	"bytes"
	"fmt"
	"math"
	"math/big"
	"strconv"
	"strings"

	"seehuhn.de/go/postscript/funit"
	"seehuhn.de/go/postscript/type1"
)

type numGlyph struct {
	wx, wy float64
	hs, vs []funit.Int16
	cmds   []type1.GlyphOp
	exact  bool // arithmetic is exact in float64 (integers, small dyadic fractions)
}

func newTestFont() *type1.Font {
	return &type1.Font{
		FontInfo: &type1.FontInfo{FontName: "Test", FontMatrix: [6]float64{0.001, 0, 0, 0.001, 0, 0}},
		Private:  &type1.PrivateDict{BlueScale: 0.039625, BlueShift: 7, BlueFuzz: 1},
		Glyphs:   map[string]*type1.Glyph{},
	}
}

func fmtRatFloat(x float64) string {
	r := new(big.Rat)
	r.SetFloat64(x)
	return ratStr(r)
}

func (g *numGlyph) caseLine() string {
	var cs []string
	for _, c := range g.cmds {
		switch c.Op {
		case type1.OpMoveTo:
			cs = append(cs, "m:"+fmtRatFloat(c.Args[0])+":"+fmtRatFloat(c.Args[1]))
		case type1.OpLineTo:
			cs = append(cs, "l:"+fmtRatFloat(c.Args[0])+":"+fmtRatFloat(c.Args[1]))
		case type1.OpCurveTo:
			p := []string{"c"}
			for _, a := range c.Args {
				p = append(p, fmtRatFloat(a))
			}
			cs = append(cs, strings.Join(p, ":"))
		case type1.OpClosePath:
			cs = append(cs, "z")
		}
	}
	ints := func(v []funit.Int16) string {
		if len(v) == 0 {
			return "-"
		}
		var p []string
		for _, x := range v {
			p = append(p, strconv.Itoa(int(x)))
		}
		return strings.Join(p, ",")
	}
	c := "-"
	if len(cs) > 0 {
		c = strings.Join(cs, ";")
	}
	verb := "enc"
	if !g.exact {
		verb = "encf" // oracle only: float arithmetic is not exact on this glyph
	}
	return fmt.Sprintf("%s %d %d %s %s %s", verb, int32(math.Round(g.wx)), int32(math.Round(g.wy)), ints(g.hs), ints(g.vs), c)
}

var bound214 = big.NewRat(1, 214)

// slack for float64 rounding inside the Go encoder (modelled, not verified)
var floatSlack = new(big.Rat).SetFloat64(1e-9)

func nearRat(a *big.Rat, b float64, bound *big.Rat) bool {
	d := new(big.Rat).Sub(a, new(big.Rat).SetFloat64(b))
	d.Abs(d)
	return d.Cmp(bound) <= 0
}

// checkGlyphOracle is the direct oracle of C20 on one glyph.
func checkGlyphOracle(o *suiteOut, caseLine string, g *numGlyph, sg *specGlyph) {
	bound := new(big.Rat).Add(bound214, floatSlack)
	if sg.WX.Cmp(new(big.Rat).SetInt64(int64(int32(math.Round(g.wx))))) != 0 || sg.WY.Cmp(new(big.Rat).SetInt64(int64(int32(math.Round(g.wy))))) != 0 {
		o.fail("C20", "width decodes to the integer written", caseLine, fmt.Sprint(g.wx, g.wy), ratStr(sg.WX)+" "+ratStr(sg.WY))
	}
	// stems
	chk := func(kind string, want []funit.Int16, got []*big.Rat) {
		n := len(want) / 2 * 2
		if len(got) != n {
			o.fail("C20", kind+" count", caseLine, fmt.Sprint(n), fmt.Sprint(len(got)))
			return
		}
		for i := 0; i < n; i++ {
			if got[i].Cmp(new(big.Rat).SetInt64(int64(want[i]))) != 0 {
				o.fail("C20", kind+" value decodes to the integer written", caseLine, fmt.Sprint(want[i]), ratStr(got[i]))
				return
			}
		}
	}
	chk("hstem", g.hs, sg.HStem)
	chk("vstem", g.vs, sg.VStem)
	if len(sg.Cmds) != len(g.cmds) {
		o.fail("C20", "command count", caseLine, fmt.Sprint(len(g.cmds)), fmt.Sprint(len(sg.Cmds)))
		return
	}
	for i, c := range g.cmds {
		d := sg.Cmds[i]
		if c.Op.String() != d.Op {
			o.fail("C20", "command kind", caseLine, c.Op.String(), d.Op)
			return
		}
		for k, a := range c.Args {
			isInt := a == math.Trunc(a) && math.Abs(a) < 1<<31 && g.exact
			if isInt {
				if d.Args[k].Cmp(new(big.Rat).SetFloat64(a)) != 0 {
					o.fail("C20", "integer coordinate decodes exactly", caseLine, fmt.Sprint(a), ratStr(d.Args[k]))
					return
				}
			} else if !nearRat(d.Args[k], a, bound) {
				o.fail("C20", fmt.Sprintf("point %d coordinate %d within 1/214", i, k), caseLine, fmt.Sprint(a), ratStr(d.Args[k]))
				return
			}
		}
	}
}

// runNumBatch writes the glyphs in one font, decodes it independently, and
// emits one case per glyph.
func runNumBatch(o *suiteOut, glyphs []*numGlyph, format type1.FileFormat) {
	f := newTestFont()
	names := make([]string, len(glyphs))
	for i, g := range glyphs {
		names[i] = fmt.Sprintf("g%d", i)
		f.Glyphs[names[i]] = &type1.Glyph{Cmds: g.cmds, HStem: g.hs, VStem: g.vs, WidthX: g.wx, WidthY: g.wy}
	}
	var buf bytes.Buffer
	err := f.Write(&buf, &type1.WriterOptions{Format: format})
	if err != nil {
		o.fail("C20", "Font.Write succeeds", fmt.Sprintf("batch of %d glyphs", len(glyphs)), "nil", err.Error())
		return
	}
	sf, err := specDecodeFont(buf.Bytes())
	if err != nil {
		o.fail("C20", "independent decoder accepts the written font", glyphs[0].caseLine(), "ok", err.Error())
		return
	}
	// the library's own decoder on the same bytes: every integer (width, hint value, coordinate of an exact glyph)
	// comes back as it was written.  Charstrings above the interpreter's string limit cannot be read back (13.9).
	if back, err, pan := readFont(buf.Bytes()); pan != "" {
		o.fail("C01", "no panic in the Type 1 reader", glyphs[0].caseLine(), "error value", pan)
	} else if err == nil && back != nil {
		for i, g := range glyphs {
			bg := back.Glyphs[names[i]]
			if bg == nil {
				continue
			}
			line := g.caseLine()
			even := func(s []funit.Int16) []funit.Int16 { return s[:len(s)/2*2] }
			if fmt.Sprint(bg.HStem) != fmt.Sprint(even(g.hs)) || fmt.Sprint(bg.VStem) != fmt.Sprint(even(g.vs)) {
				o.fail("C20", "hint values are read back as written (library decoder)", line, fmt.Sprint(even(g.hs), even(g.vs)), fmt.Sprint(bg.HStem, bg.VStem))
			}
			if bg.WidthX != math.Round(g.wx) || bg.WidthY != math.Round(g.wy) {
				o.fail("C20", "advance widths are read back as written (library decoder)", line, fmt.Sprint(math.Round(g.wx), math.Round(g.wy)), fmt.Sprint(bg.WidthX, bg.WidthY))
			}
			if g.exact && len(bg.Cmds) == len(g.cmds) {
				for ci := range g.cmds {
					if fmt.Sprint(bg.Cmds[ci].Args) != fmt.Sprint(g.cmds[ci].Args) && g.cmds[ci].Op == bg.Cmds[ci].Op {
						o.fail("C20", "coordinates of an exactly representable path are read back as written (library decoder)", line, fmt.Sprint(g.cmds[ci]), fmt.Sprint(bg.Cmds[ci]))
						break
					}
				}
			}
		}
		o.count("batches also read back by the library's decoder")
	}
	for i, g := range glyphs {
		sg := sf.Glyphs[names[i]]
		line := g.caseLine()
		if sg == nil {
			o.fail("C20", "glyph present in written font", line, names[i], "missing")
			continue
		}
		checkGlyphOracle(o, line, g, sg)
		if g.exact {
			o.emit(line, hx(sg.Raw), len(g.cmds) > 0 || g.wx > 107 || g.wx < -107)
		} else {
			o.count("oracle-only glyphs (float arithmetic not exact)")
			o.emit(line, "skip", len(g.cmds) > 0)
		}
		o.count(fmt.Sprintf("glyphs with %s commands", bucket(len(g.cmds))))
	}
}

func bucket(n int) string {
	switch {
	case n == 0:
		return "0"
	case n <= 3:
		return "1-3"
	case n <= 30:
		return "4-30"
	case n <= 300:
		return "31-300"
	default:
		return ">300"
	}
}

func intGlyph(x int64) *numGlyph {
	// the integer appears as an hmoveto delta and as the advance width
	return &numGlyph{wx: float64(x), cmds: []type1.GlyphOp{{Op: type1.OpMoveTo, Args: []float64{float64(x), 0}}}, exact: true}
}

// randPath builds a well-formed or free-form path; den is the dyadic
// denominator (1 = integers), span the coordinate range.
func randPath(r *rng, n int, den int, span int, exact bool) *numGlyph {
	g := &numGlyph{wx: float64(r.rangeInt(-2000, 2000)), exact: exact}
	if r.chance(1, 6) {
		g.wy = float64(r.rangeInt(-500, 500))
	}
	stem := func() (funit.Int16, funit.Int16) {
		if r.chance(1, 8) {
			// the whole 16-bit range: the width operand (difference) needs more than 16 bits
			return funit.Int16(pick(r, []int{-32768, -32767, -30000, -20000, 0})), funit.Int16(pick(r, []int{20000, 30000, 32766, 32767}))
		}
		a := r.rangeInt(-1200, 1200)
		return funit.Int16(a), funit.Int16(a + r.rangeInt(-200, 1500))
	}
	for k := r.intn(3); k > 0; k-- {
		a, b := stem()
		g.hs = append(g.hs, a, b)
	}
	for k := r.intn(3); k > 0; k-- {
		a, b := stem()
		g.vs = append(g.vs, a, b)
	}
	if r.chance(1, 8) {
		g.hs = append(g.hs, 7) // odd count: last value ignored by the writer
	}
	coord := func() float64 {
		if exact {
			return float64(r.rangeInt(-span*den, span*den)) / float64(den)
		}
		switch r.intn(4) {
		case 0:
			return float64(r.rangeInt(-span, span))
		case 1:
			return (r.float()*2 - 1) * float64(span)
		case 2:
			return float64(r.rangeInt(-span, span)) + float64(r.rangeInt(0, 213))/214 + 1/428.0
		default:
			return float64(r.rangeInt(-span*1000, span*1000)) / 1000
		}
	}
	var x, y float64
	for i := 0; i < n; i++ {
		switch k := r.intn(12); {
		case k < 2:
			nx, ny := coord(), coord()
			if r.chance(1, 3) {
				ny = y
			} else if r.chance(1, 3) {
				nx = x
			}
			g.cmds = append(g.cmds, type1.GlyphOp{Op: type1.OpMoveTo, Args: []float64{nx, ny}})
			x, y = nx, ny
		case k < 6:
			nx, ny := coord(), coord()
			if r.chance(1, 3) {
				ny = y
			} else if r.chance(1, 3) {
				nx = x
			}
			g.cmds = append(g.cmds, type1.GlyphOp{Op: type1.OpLineTo, Args: []float64{nx, ny}})
			x, y = nx, ny
		case k < 11:
			a := []float64{coord(), coord(), coord(), coord(), coord(), coord()}
			switch r.intn(4) {
			case 0: // hv form
				a[1] = y
				a[4] = a[2]
			case 1: // vh form
				a[0] = x
				a[5] = a[3]
			case 2: // nearly hv: differs in the last x
				a[1] = y
				if !exact {
					a[4] = a[2] + 5e-7
				}
			}
			g.cmds = append(g.cmds, type1.GlyphOp{Op: type1.OpCurveTo, Args: a})
			x, y = a[4], a[5]
		default:
			g.cmds = append(g.cmds, type1.GlyphOp{Op: type1.OpClosePath})
		}
	}
	return g
}

func parseRatFloat(s string) float64 {
	r, ok := new(big.Rat).SetString(s)
	if !ok {
		must(fmt.Errorf("bad rational %q", s))
	}
	f, _ := r.Float64()
	return f
}

// parseNumCase turns an enc/encf case line back into a glyph (corpus, replay).
func parseNumCase(line string) *numGlyph {
	f := strings.Split(line, " ")
	if len(f) != 6 {
		must(fmt.Errorf("bad numbers case %q", line))
	}
	g := &numGlyph{exact: f[0] == "enc"}
	g.wx = parseRatFloat(f[1])
	g.wy = parseRatFloat(f[2])
	ints := func(s string) []funit.Int16 {
		if s == "-" {
			return nil
		}
		var res []funit.Int16
		for _, p := range strings.Split(s, ",") {
			v, err := strconv.Atoi(p)
			must(err)
			res = append(res, funit.Int16(v))
		}
		return res
	}
	g.hs, g.vs = ints(f[3]), ints(f[4])
	if f[5] != "-" {
		for _, c := range strings.Split(f[5], ";") {
			p := strings.Split(c, ":")
			var args []float64
			for _, a := range p[1:] {
				args = append(args, parseRatFloat(a))
			}
			switch p[0] {
			case "m":
				g.cmds = append(g.cmds, type1.GlyphOp{Op: type1.OpMoveTo, Args: args})
			case "l":
				g.cmds = append(g.cmds, type1.GlyphOp{Op: type1.OpLineTo, Args: args})
			case "c":
				g.cmds = append(g.cmds, type1.GlyphOp{Op: type1.OpCurveTo, Args: args})
			case "z":
				g.cmds = append(g.cmds, type1.GlyphOp{Op: type1.OpClosePath})
			}
		}
	}
	return g
}

func replayNumbers(o *suiteOut, line string) {
	runNumBatch(o, []*numGlyph{parseNumCase(line)}, type1.FormatPFA)
}

func suiteNumbers(o *suiteOut, r *rng, tier string, n int) {
	formats := []type1.FileFormat{type1.FormatNoEExec, type1.FormatPFA, type1.FormatPFB, type1.FormatBinary}
	var batch []*numGlyph
	for _, line := range corpusLines("numbers") {
		batch = append(batch, parseNumCase(line))
		o.count("corpus cases")
	}
	flush := func() {
		if len(batch) > 0 {
			runNumBatch(o, batch, formats[r.intn(len(formats))])
			batch = batch[:0]
		}
	}
	add := func(g *numGlyph) {
		batch = append(batch, g)
		if len(batch) >= 1500 {
			flush()
		}
	}
	// 1. integers: format boundaries and powers of two ± 3 (always), the
	//    exhaustive window (thorough) or a stride through it (quick)
	bnd := []int64{0, 1, -1, 107, 108, -107, -108, 1131, 1132, -1131, -1132, 32767, 32768, -32768, -32769}
	for k := 1; k <= 31; k++ {
		for d := int64(-3); d <= 3; d++ {
			v := int64(1)<<uint(k) + d
			if v <= math.MaxInt32 {
				bnd = append(bnd, v)
			}
			if -v >= math.MinInt32 {
				bnd = append(bnd, -v)
			}
		}
	}
	bnd = append(bnd, math.MaxInt32, math.MinInt32, math.MinInt32+1)
	for _, v := range bnd {
		add(intGlyph(v))
	}
	o.count("boundary integers")
	lo, hi, stride := int64(-70000), int64(70000), int64(1)
	if tier != "thorough" {
		lo, hi = -1400, 1400
		stride = 1
	} else {
		o.exhaustive = true
	}
	for v := lo; v <= hi; v += stride {
		add(intGlyph(v))
	}
	nInt := 2000
	if tier == "thorough" {
		nInt = 100000
	}
	for i := 0; i < nInt; i++ {
		add(intGlyph(int64(int32(r.next()))))
	}
	flush()
	// 2. paths with exact arithmetic (integers, dyadic fractions with up to 6 bits)
	nPaths := 600
	maxLen := 60
	if tier == "thorough" {
		nPaths, maxLen = 20000, 400
	}
	if n > 0 {
		nPaths = n
	}
	for i := 0; i < nPaths; i++ {
		den := pick(r, []int{1, 1, 2, 4, 8, 64})
		span := pick(r, []int{5, 150, 1200, 40000, 900000})
		add(randPath(r, r.rangeInt(1, maxLen), den, span, true))
	}
	flush()
	// 3. free-form fractional paths: direct oracle only
	for i := 0; i < nPaths; i++ {
		span := pick(r, []int{2, 150, 1200, 40000, 999999})
		add(randPath(r, r.rangeInt(1, maxLen), 1, span, false))
	}
	flush()
	// 3b. nearly horizontal and nearly vertical steps far from the origin: whether a step may be written with the
	// one-operand forms (hlineto, vlineto, hvcurveto, vhcurveto) depends on the size of the perpendicular delta, not
	// on the size of the coordinates
	for _, base := range []float64{0, 10, 5000, 20000, 300000, -70000, 999000} {
		// (the interesting sizes: below the 1e-6 the encoder ignores, and on both sides of the resolution 1/214 = 0.004673)
		for _, eps := range []float64{1e-7, 5e-7, 2e-6, 1e-5, 0.001, 0.004, 0.00466, 0.00468, 0.0048, 0.0049, 0.00499, 0.0051, 0.015, 0.25} {
			g := &numGlyph{wx: 500}
			g.cmds = []type1.GlyphOp{
				{Op: type1.OpMoveTo, Args: []float64{0, base}},
				{Op: type1.OpLineTo, Args: []float64{100, base + eps}},
				{Op: type1.OpLineTo, Args: []float64{100 + eps, base + 50}},
				{Op: type1.OpCurveTo, Args: []float64{150, base + 50 + eps, 200, base + 100, 200 + eps, base + 150}},
				{Op: type1.OpCurveTo, Args: []float64{200 + 2*eps, base + 200, 250, base + 250, 300, base + 250 + eps}},
				{Op: type1.OpClosePath},
				{Op: type1.OpMoveTo, Args: []float64{base, 0}},
				{Op: type1.OpLineTo, Args: []float64{base + eps, 100}},
				{Op: type1.OpCurveTo, Args: []float64{base + eps, 150, base + 60, 200, base + 120, 200 + eps}},
				{Op: type1.OpClosePath},
			}
			add(g)
			o.count("nearly axis-parallel steps far from the origin")
		}
	}
	flush()
	// 4. long paths (drift): a few per run
	long := []int{2000}
	if tier == "thorough" {
		long = []int{10000, 10000, 5000, 5000, 3000}
	}
	for _, l := range long {
		add(randPath(r, l, 64, 900, true))
		add(randPath(r, l, 1, 900, false))
		flush()
	}
	// 4b. long paths in which one coordinate creeps by less than the encoder's threshold (1e-6) per step: the choice of
	// the one-operand forms must follow the position the decoder will have, not the caller's previous point
	creep := []int{6000, 10000}
	if tier == "thorough" {
		creep = []int{5200, 6000, 8000, 10000}
	}
	for _, l := range creep {
		for _, eps := range []float64{0.5e-6, 0.9e-6, 0.99e-6} {
			g := &numGlyph{wx: 500, cmds: []type1.GlyphOp{{Op: type1.OpMoveTo, Args: []float64{0, 0}}}}
			h := &numGlyph{wx: 500}
			for i := 1; i <= l; i++ {
				g.cmds = append(g.cmds, type1.GlyphOp{Op: type1.OpLineTo, Args: []float64{float64(i), float64(i) * eps}})
				h.cmds = append(h.cmds, type1.GlyphOp{Op: type1.OpMoveTo, Args: []float64{float64(i) * eps, float64(i % 50)}})
			}
			g.cmds = append(g.cmds, type1.GlyphOp{Op: type1.OpClosePath})
			add(g)
			add(h)
			o.count("long paths with a creeping coordinate")
		}
		flush()
	}
	o.notes = append(o.notes, "case = one glyph written by Font.Write in a random container format and recovered by the independent decoder; impl line = raw charstring bytes; non-trivial = has path commands or a width outside the one-byte range")
}

func init() {
	suites["numbers"] = suiteNumbers
	replayers["enc"] = replayNumbers
	replayers["encf"] = replayNumbers
}
