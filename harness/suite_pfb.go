package main

// Suite `pfb` (C14, parts of C01/C12): pfb.Decode under every pattern of
// caller buffer sizes and underlying short reads.
// case: `pfb <hex stream> <buffer sizes> <underlying read sizes>`
// result: per Read call `<hex bytes>:<error class>` joined by `|`.

import (
	"bytes"
	"fmt"
	"io"
	"strconv"
	"strings"

	"seehuhn.de/go/postscript/pfb"
)

// schedReader delivers at most sched[i] bytes (at least 1) on the i-th Read.
type schedReader struct {
	data  []byte
	sched []int
	calls int
	eager bool // the last bytes come together with io.EOF (as io.Reader allows)
}

func (r *schedReader) Read(p []byte) (int, error) {
	if len(p) == 0 {
		return 0, nil
	}
	want := len(p)
	if r.calls < len(r.sched) {
		w := r.sched[r.calls]
		if w < 1 {
			w = 1
		}
		if w < want {
			want = w
		}
	}
	r.calls++
	if len(r.data) == 0 {
		return 0, io.EOF
	}
	n := copy(p[:want], r.data)
	r.data = r.data[n:]
	if r.eager && len(r.data) == 0 {
		return n, io.EOF
	}
	return n, nil
}

func pfbErrClass(err error) string {
	switch err {
	case nil:
		return "nil"
	case io.EOF:
		return "EOF"
	case io.ErrUnexpectedEOF:
		return "unexpectedEOF"
	case pfb.ErrInvalidPFB:
		return "invalidPFB"
	}
	return "other:" + err.Error()
}

func intsStr(v []int) string {
	if len(v) == 0 {
		return "-"
	}
	p := make([]string, len(v))
	for i, x := range v {
		p[i] = strconv.Itoa(x)
	}
	return strings.Join(p, ",")
}

func parseInts(s string) []int {
	if s == "-" {
		return nil
	}
	var res []int
	for _, p := range strings.Split(s, ",") {
		v, err := strconv.Atoi(p)
		must(err)
		res = append(res, v)
	}
	return res
}

type pfbSeg struct {
	tp   byte
	data []byte
}

func pfbFrame(segs []pfbSeg) []byte {
	var out []byte
	for _, s := range segs {
		n := len(s.data)
		out = append(out, 0x80, s.tp, byte(n), byte(n>>8), byte(n>>16), byte(n>>24))
		out = append(out, s.data...)
	}
	return out
}

const hexdigits = "0123456789abcdef"

func pfbSpecOut(segs []pfbSeg) []byte {
	var out []byte
	for _, s := range segs {
		if s.tp == 1 {
			out = append(out, s.data...)
		} else {
			for _, b := range s.data {
				out = append(out, hexdigits[b>>4], hexdigits[b&15])
			}
		}
	}
	return out
}

// runPFB performs the Read calls and returns the result line, the
// concatenated output, whether every non-final call filled its buffer, and the
// final error.
func runPFB(stream []byte, sizes, sched []int) (line string, all []byte, filled bool, last error, panicked string) {
	return runPFBWith(stream, sizes, sched, false)
}

func runPFBWith(stream []byte, sizes, sched []int, eager bool) (line string, all []byte, filled bool, last error, panicked string) {
	defer func() {
		if r := recover(); r != nil {
			panicked = fmt.Sprint(r)
			line = "panic"
		}
	}()
	r := pfb.Decode(&schedReader{data: append([]byte{}, stream...), sched: sched, eager: eager})
	var parts []string
	filled = true
	for _, n := range sizes {
		buf := make([]byte, n)
		k, err := r.Read(buf)
		all = append(all, buf[:k]...)
		parts = append(parts, hx(buf[:k])+":"+pfbErrClass(err))
		last = err
		if err != nil {
			break
		}
		if k != n {
			filled = false
		}
	}
	return strings.Join(parts, "|"), all, filled, last, ""
}

func pfbCase(o *suiteOut, stream []byte, sizes, sched []int, segs []pfbSeg, wellFormed bool, marker bool) {
	caseLine := fmt.Sprintf("pfb %s %s %s", hx(stream), intsStr(sizes), intsStr(sched))
	line, all, filled, last, pan := runPFB(stream, sizes, sched)
	if pan != "" {
		o.fail("C01", "no panic in the PFB decoder", caseLine, "error value", pan)
	}
	if wellFormed {
		spec := pfbSpecOut(segs)
		total := 0
		for _, n := range sizes {
			total += n
		}
		want := spec
		if total < len(spec) {
			want = spec[:total]
		}
		if !bytes.Equal(all, want) {
			o.fail("C14", "output = text segments verbatim + binary segments as lower-case hex", caseLine, hx(want), hx(all))
		}
		if !filled {
			o.fail("C14", "every Read fills the caller's buffer unless the stream ends", caseLine, "full buffers", line)
		}
		if total > len(spec) && last != io.EOF {
			o.fail("C14", "stream ends with io.EOF at the end marker / end of input", caseLine, "EOF", pfbErrClass(last))
		}
		if total <= len(spec) && last != nil && !(total == len(spec) && last == io.EOF) {
			o.fail("C14", "no error before the decoded data is exhausted", caseLine, "nil", pfbErrClass(last))
		}
	}
	_ = marker
	// the same stream from a reader that hands over its last bytes together with io.EOF: same data, same end
	line2, all2, _, last2, pan2 := runPFBWith(stream, sizes, sched, true)
	if len(stream) <= 400 {
		// ... also against the eager-source model (PFBEager.drainE; `pfb_eager_eof_same` relates it to the plain one)
		o.emit(fmt.Sprintf("pfbe %s %s %s", hx(stream), intsStr(sizes), intsStr(sched)), line2, len(stream) > 2)
	}
	if pan2 != "" {
		o.fail("C01", "no panic in the PFB decoder", caseLine+" (data with EOF)", "error value", pan2)
	} else if same := bytes.Equal(all, all2) && pfbErrClass(last) == pfbErrClass(last2); !same && func() bool {
		// the caller's buffers may end exactly where the data ends: the plain source reports the end with the next
		// Read, the other one with the last bytes - ask the plain run for one more byte
		if last != nil || !bytes.Equal(all, all2) {
			return true
		}
		_, all3, _, last3, _ := runPFBWith(stream, append(append([]int{}, sizes...), 1), sched, false)
		return !bytes.Equal(all3, all2) || pfbErrClass(last3) != pfbErrClass(last2)
	}() {
		o.fail("C14", "the decoded data and the way the stream ends do not depend on whether the source reports EOF with its last bytes", caseLine+" (data with EOF)",
			hx(all)+":"+pfbErrClass(last), hx(all2)+":"+pfbErrClass(last2))
	}
	o.emit(caseLine, line, len(stream) > 2)
}

func replayPFBEager(o *suiteOut, line string) {
	f := strings.Split(line, " ")
	if len(f) != 4 {
		must(fmt.Errorf("bad pfbe case %q", line))
	}
	res, _, _, _, _ := runPFBWith(unhx(f[1]), parseInts(f[2]), parseInts(f[3]), true)
	o.emit(line, res, true)
}

func replayPFB(o *suiteOut, line string) {
	f := strings.Split(line, " ")
	if len(f) != 4 {
		must(fmt.Errorf("bad pfb case %q", line))
	}
	pfbCase(o, unhx(f[1]), parseInts(f[2]), parseInts(f[3]), nil, false, false)
}

func randSizes(r *rng, total int) []int {
	var sizes []int
	mode := r.intn(6)
	sum := 0
	for sum <= total+3 && len(sizes) < 4000 {
		var n int
		switch mode {
		case 0:
			n = 1
		case 1:
			n = pick(r, []int{1, 3, 5, 7})
		case 2:
			n = r.rangeInt(1, 9)
		case 3:
			n = pick(r, []int{2, 4, 8, 16})
		case 4:
			n = r.rangeInt(1, 64)
		default:
			n = total + 10
		}
		sizes = append(sizes, n)
		sum += n
	}
	sizes = append(sizes, 4, 1)
	return sizes
}

func randSched(r *rng) []int {
	switch r.intn(4) {
	case 0:
		return nil
	case 1:
		s := make([]int, 300)
		for i := range s {
			s[i] = 1
		}
		return s
	default:
		s := make([]int, r.rangeInt(1, 60))
		for i := range s {
			s[i] = r.rangeInt(1, 9)
		}
		return s
	}
}

func suitePFB(o *suiteOut, r *rng, tier string, n int) {
	for _, l := range corpusLines("pfb") {
		replayPFB(o, l)
		o.count("corpus cases")
	}
	nr := 3000
	if tier == "thorough" {
		nr = 150000
	}
	if n > 0 {
		nr = n
	}
	for i := 0; i < nr; i++ {
		var segs []pfbSeg
		for k := r.intn(5); k > 0; k-- {
			tp := byte(1 + r.intn(2))
			ln := pick(r, []int{0, 0, 1, 2, 3, 5, 8, 13, 40})
			if r.chance(1, 30) {
				ln = r.rangeInt(200, 700)
			}
			d := make([]byte, ln)
			for j := range d {
				d[j] = byte(r.intn(256))
			}
			segs = append(segs, pfbSeg{tp, d})
		}
		stream := pfbFrame(segs)
		marker := r.chance(3, 4)
		if marker {
			stream = append(stream, 0x80, 3)
			for k := r.intn(4); k > 0 && r.chance(1, 3); k-- {
				stream = append(stream, byte(r.intn(256))) // trailing garbage after the marker
			}
		}
		spec := pfbSpecOut(segs)
		pfbCase(o, stream, randSizes(r, len(spec)), randSched(r), segs, true, marker)
		o.count("well-formed streams")
		// malformed variants of the same stream
		if len(stream) > 0 && r.chance(1, 2) {
			cut := r.intn(len(stream))
			pfbCase(o, stream[:cut], randSizes(r, len(spec)), randSched(r), nil, false, false)
			o.count("truncated streams")
			st := append([]byte{}, stream...)
			st[r.intn(len(st))] ^= byte(1 << uint(r.intn(8)))
			pfbCase(o, st, randSizes(r, len(spec)), randSched(r), nil, false, false)
			o.count("bit-flipped streams")
		}
	}
	// all first-two-byte header values
	// (exhaustive in both tiers: a special case for one pair of bytes, such as "%!", is one value in 65,536)
	nh := 65536
	o.exhaustive = true
	for i := 0; i < nh; i++ {
		v := i
		stream := []byte{byte(v >> 8), byte(v), 2, 0, 0, 0, 'h', 'i', 0x80, 3}
		caseLine := fmt.Sprintf("pfb %s %s %s", hx(stream), "8,8", "-")
		line, _, _, last, pan := runPFB(stream, []int{8, 8}, nil)
		if pan != "" {
			o.fail("C01", "no panic in the PFB decoder", caseLine, "error value", pan)
		}
		b0, b1 := byte(v>>8), byte(v)
		if b0 != 0x80 || b1 == 0 || b1 > 3 {
			if last != pfb.ErrInvalidPFB {
				o.fail("C14", "wrong marker byte or unknown type gives the invalid-PFB error", caseLine, "invalidPFB", pfbErrClass(last))
			}
		}
		o.emit(caseLine, line, b0 == 0x80)
		o.count("header values")
	}
	// short binary / text segments: an error, for every buffer size
	for bs := 1; bs <= 17; bs++ {
		for _, tp := range []byte{1, 2} {
			stream := []byte{0x80, tp, 10, 0, 0, 0, 1, 2, 3, 4}
			var sizes []int
			for k := 0; k < 30; k++ {
				sizes = append(sizes, bs)
			}
			caseLine := fmt.Sprintf("pfb %s %s -", hx(stream), intsStr(sizes))
			line, _, _, last, _ := runPFB(stream, sizes, nil)
			if last == nil || last == io.EOF {
				o.fail("C14", "a segment shorter than its declared length gives an error", caseLine, "error", pfbErrClass(last))
			}
			o.emit(caseLine, line, true)
			o.count("short segments")
		}
	}
	o.notes = append(o.notes, "segment sequences (types 1/2, lengths 0..700, with/without end marker, trailing garbage) x caller buffer-size patterns (all ones, odd, powers of two, mixed, one big) x underlying short-read schedules; truncated and bit-flipped variants; first-two-byte header values; direct oracle = independent concatenation of the segments")
}

func init() {
	suites["pfb"] = suitePFB
	replayers["pfb"] = replayPFB
	replayers["pfbe"] = replayPFBEager
}
