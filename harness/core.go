// psharness: the Go side of the correspondence check.
//
// For a suite it generates cases (one per line), runs the real implementation
// from the repository in-process on each case, writes the canonical result
// lines, applies the direct oracles of the properties, and writes statistics.
// The Lean driver (psdriver) reads the same case lines and prints the model's
// result lines; the check script diffs the two streams.
package main

import (
	"bufio"
	"encoding/hex"
	"encoding/json"
	"flag"
	"fmt"
	"os"
	"path/filepath"
	"sort"
	"strings"
	"sync"
)

// ---------------------------------------------------------------- PRNG

// rng is SplitMix64; every random choice of a run derives from one state.
type rng struct{ s uint64 }

func newRng(seed uint64) *rng { return &rng{s: seed*0x9E3779B97F4A7C15 + 0x1234567} }

func (r *rng) next() uint64 {
	r.s += 0x9E3779B97F4A7C15
	z := r.s
	z = (z ^ (z >> 30)) * 0xBF58476D1CE4E5B9
	z = (z ^ (z >> 27)) * 0x94D049BB133111EB
	return z ^ (z >> 31)
}

// intn returns a value in [0, n).
func (r *rng) intn(n int) int {
	if n <= 0 {
		return 0
	}
	return int(r.next() % uint64(n))
}

func (r *rng) rangeInt(lo, hi int) int  { return lo + r.intn(hi-lo+1) }
func (r *rng) chance(num, den int) bool { return r.intn(den) < num }
func (r *rng) float() float64           { return float64(r.next()>>11) / float64(1<<53) }

func pick[T any](r *rng, xs []T) T { return xs[r.intn(len(xs))] }

// ---------------------------------------------------------------- suite output

type failure struct {
	Property string `json:"property"`
	Oracle   string `json:"oracle"`
	Case     string `json:"case"`
	Line     int    `json:"line"`
	Expected string `json:"expected"`
	Observed string `json:"observed"`
}

type suiteOut struct {
	name       string
	dir        string
	cases      *bufio.Writer
	impl       *bufio.Writer
	fc, fi     *os.File
	n          int
	distinct   map[string]bool
	dist       map[string]int
	samples    []string
	failures   []failure
	notes      []string
	exhaustive bool
	mu         sync.Mutex // suites that run cases on several goroutines
}

func newSuiteOut(dir, name string) *suiteOut {
	os.MkdirAll(dir, 0o755)
	fc, err := os.Create(filepath.Join(dir, name+".cases"))
	must(err)
	fi, err := os.Create(filepath.Join(dir, name+".impl"))
	must(err)
	return &suiteOut{name: name, dir: dir, fc: fc, fi: fi,
		cases: bufio.NewWriterSize(fc, 1<<20), impl: bufio.NewWriterSize(fi, 1<<20),
		distinct: map[string]bool{}, dist: map[string]int{}}
}

// emit records one case line and the implementation's canonical result line.
// nontrivial says whether the case counts as non-trivial (rule is suite-specific).
func (o *suiteOut) emit(caseLine, implLine string, nontrivial bool) int {
	o.mu.Lock()
	defer o.mu.Unlock()
	if strings.ContainsAny(caseLine, "\n\r") || strings.ContainsAny(implLine, "\n\r") {
		panic("harness: newline inside a protocol line")
	}
	o.cases.WriteString(caseLine)
	o.cases.WriteByte('\n')
	o.impl.WriteString(implLine)
	o.impl.WriteByte('\n')
	o.n++
	if nontrivial {
		key := implLine
		if len(key) > 200 {
			key = key[:200]
		}
		o.distinct[caseLine[:min(len(caseLine), 120)]+"|"+key] = true
	}
	if len(o.samples) < 5 || (o.n%997 == 0 && len(o.samples) < 12) {
		s := caseLine + " => " + implLine
		if len(s) > 300 {
			s = s[:300] + "…"
		}
		o.samples = append(o.samples, s)
	}
	return o.n
}

func (o *suiteOut) count(key string) {
	o.mu.Lock()
	o.dist[key]++
	o.mu.Unlock()
}

func (o *suiteOut) fail(prop, oracle, caseLine, expected, observed string) {
	o.mu.Lock()
	defer o.mu.Unlock()
	if len(o.failures) < 200 {
		o.failures = append(o.failures, failure{prop, oracle, caseLine, o.n, expected, observed})
	}
}

func (o *suiteOut) close() {
	o.cases.Flush()
	o.impl.Flush()
	o.fc.Close()
	o.fi.Close()
	keys := make([]string, 0, len(o.dist))
	for k := range o.dist {
		keys = append(keys, k)
	}
	sort.Strings(keys)
	dist := map[string]int{}
	for _, k := range keys {
		dist[k] = o.dist[k]
	}
	if o.failures == nil {
		o.failures = []failure{}
	}
	if o.samples == nil {
		o.samples = []string{}
	}
	st := map[string]any{
		"suite":               o.name,
		"evaluations":         o.n,
		"distinct_nontrivial": len(o.distinct),
		"distribution":        dist,
		"samples":             o.samples,
		"oracle_failures":     o.failures,
		"notes":               o.notes,
		"exhaustive":          o.exhaustive,
	}
	data, _ := json.MarshalIndent(st, "", " ")
	must(os.WriteFile(filepath.Join(o.dir, o.name+".json"), data, 0o644))
}

func must(err error) {
	if err != nil {
		fmt.Fprintln(os.Stderr, "psharness:", err)
		os.Exit(2)
	}
}

func hx(b []byte) string {
	if len(b) == 0 {
		return "-"
	}
	return hex.EncodeToString(b)
}

func unhx(s string) []byte {
	if s == "-" {
		return nil
	}
	b, err := hex.DecodeString(s)
	must(err)
	return b
}

// ---------------------------------------------------------------- main

type suiteFn func(o *suiteOut, r *rng, tier string, n int)

var suites = map[string]suiteFn{}

func main() {
	if len(os.Args) < 2 {
		fmt.Fprintln(os.Stderr, "usage: psharness <suite>|replay|list [flags]")
		os.Exit(2)
	}
	cmd := os.Args[1]
	fs := flag.NewFlagSet(cmd, flag.ExitOnError)
	seed := fs.Uint64("seed", 1, "seed")
	tier := fs.String("tier", "quick", "quick|thorough")
	out := fs.String("out", ".", "output directory")
	n := fs.Int("n", 0, "number of random cases (0 = tier default)")
	file := fs.String("file", "", "replay: file with case lines")
	fs.StringVar(&corpusDir, "corpus", "", "directory with <suite>.txt corpus files")
	fs.StringVar(&repoDir, "repo", "/repo", "source tree under test (for its data files)")
	fs.Parse(os.Args[2:])
	switch cmd {
	case "list":
		var names []string
		for k := range suites {
			names = append(names, k)
		}
		sort.Strings(names)
		fmt.Println(strings.Join(names, "\n"))
	case "replay":
		replay(*file, *out)
	case "nameschild":
		// a fresh process running history number n of name look-ups (the glyph-name tables are loaded lazily)
		for _, l := range namesHistory(*n) {
			fmt.Println(l)
		}
	case "detchild":
		for _, l := range detOutputs(*seed, *n) {
			fmt.Println(l)
		}
	default:
		fn, ok := suites[cmd]
		if !ok {
			fmt.Fprintln(os.Stderr, "psharness: unknown suite", cmd)
			os.Exit(2)
		}
		o := newSuiteOut(*out, cmd)
		fn(o, newRng(*seed), *tier, *n)
		o.close()
	}
}

var corpusDir = ""

// corpusLines returns the stored cases of a suite (minimised past failures
// and the witnesses of fixed defects); they run first.
func corpusLines(suite string) []string {
	if corpusDir == "" {
		return nil
	}
	data, err := os.ReadFile(filepath.Join(corpusDir, suite+".txt"))
	if err != nil {
		return nil
	}
	var res []string
	for _, l := range strings.Split(string(data), "\n") {
		l = strings.TrimSpace(l)
		if l != "" && !strings.HasPrefix(l, "#") {
			res = append(res, l)
		}
	}
	return res
}

// replayers map the verb of a case line to a function that re-runs the
// implementation on that single case and returns the canonical result line
// and the oracle failures.
var replayers = map[string]func(o *suiteOut, line string){}

func replay(file, out string) {
	data, err := os.ReadFile(file)
	must(err)
	o := newSuiteOut(out, "replay")
	for _, line := range strings.Split(strings.TrimSpace(string(data)), "\n") {
		if line == "" {
			continue
		}
		verb := strings.SplitN(line, " ", 2)[0]
		fn, ok := replayers[verb]
		if !ok {
			fmt.Fprintln(os.Stderr, "psharness: no replayer for", verb)
			os.Exit(2)
		}
		fn(o, line)
	}
	o.close()
}
